package main

import (
	"crypto/elliptic"
	"crypto/sha1"
	"crypto/sha256"
	"encoding/base64"
	"encoding/hex"
	"encoding/json"
	"fmt"
	"io/fs"
	"math/big"
	"os"
	"path/filepath"
	"sort"
	"strings"
	"time"

	"github.com/golang-jwt/jwt/v5"
	"golang.org/x/crypto/bcrypt"
	"golang.org/x/crypto/pbkdf2"

	"github.com/jech/galene/group"
	"github.com/jech/galene/token"
	"github.com/jech/galene/webserver"

	"verif/vos"
	"verif/vtime"
)

// A marker is a string that occurs exactly once in the fixture, so that its
// presence in a response proves where the datum came from.
type marker struct {
	Val    string
	Kind   string // "plain-password", "bcrypt-hash", "user-name", ...
	Secret bool   // password / hash / key material: must never be served
	Owner  string // for data: the group it belongs to ("" = server-wide)
}

type markers struct{ list []marker }

func mk(tag string) string {
	h := sha1.Sum([]byte("c17:" + tag))
	return "m" + hex.EncodeToString(h[:6]) + "x"
}

func (m *markers) secret(kind, val string) string {
	m.list = append(m.list, marker{Val: val, Kind: kind, Secret: true})
	return val
}

func (m *markers) datum(owner, kind, val string) string {
	m.list = append(m.list, marker{Val: val, Kind: kind, Owner: owner})
	return val
}

type userFx struct{ Name, Pw string }

type groupFx struct {
	Name         string
	Adm, Op, Ord userFx
	Legacy       userFx
	EmptyPw      string
	WildPw       string
	Hmac         []byte
	Kid          string
}

type tokenFx struct {
	Name  string // logical name
	Token string
	Group string
}

type fixture struct {
	mk     markers
	files  map[string][]byte // relative to the sandbox root
	groups map[string]*groupFx
	srvAdm userFx
	srvUsr userFx
	tokens map[string]*tokenFx
	hash   string
}

func b64(b []byte) string { return base64.RawURLEncoding.EncodeToString(b) }

func sum32(tag string) []byte {
	h := sha256.Sum256([]byte("c17-key:" + tag))
	return h[:]
}

// ecPoint returns a deterministic valid P-256 public point.
func ecPoint(tag string) (string, string) {
	k := new(big.Int).SetBytes(sum32("ec:" + tag))
	c := elliptic.P256()
	k.Mod(k, c.Params().N)
	x, y := c.ScalarBaseMult(k.Bytes())
	xb, yb := make([]byte, 32), make([]byte, 32)
	x.FillBytes(xb)
	y.FillBytes(yb)
	return b64(xb), b64(yb)
}

const pbkdf2Iter = 16

func pbkdf2Record(pw, tag string) (map[string]any, string) {
	salt := sum32("salt:" + tag)[:8]
	key := hex.EncodeToString(pbkdf2.Key([]byte(pw), salt, pbkdf2Iter, 32, sha256.New))
	return map[string]any{"type": "pbkdf2", "hash": "sha-256", "key": key,
		"salt": hex.EncodeToString(salt), "iterations": pbkdf2Iter}, key
}

func bcryptRecord(pw string) (map[string]any, string) {
	h, err := bcrypt.GenerateFromPassword([]byte(pw), bcrypt.MinCost)
	if err != nil {
		panic(err)
	}
	return map[string]any{"type": "bcrypt", "key": string(h)}, string(h)
}

func mustJSON(v any) []byte {
	b, err := json.MarshalIndent(v, "", "  ")
	if err != nil {
		panic(err)
	}
	return append(b, '\n')
}

// pwForm stores pw in one of the three on-disk forms and registers the
// secrets (the plaintext, and for hashed forms the hash string itself).
func (f *fixture) pwForm(form, pw, tag string) any {
	f.mk.secret("plain-password", pw)
	switch form {
	case "plain":
		return pw
	case "pbkdf2":
		rec, key := pbkdf2Record(pw, tag)
		f.mk.secret("pbkdf2-hash", key)
		return rec
	case "bcrypt":
		rec, key := bcryptRecord(pw)
		f.mk.secret("bcrypt-hash", key)
		return rec
	}
	panic(form)
}

func (f *fixture) addGroup(name string, forms [3]string, legacy bool, extra map[string]any) {
	g := &groupFx{Name: name}
	f.mk.datum(name, "group-name", name)
	u := func(role string) userFx {
		return userFx{
			Name: f.mk.datum(name, "user-name", mk(name+".user."+role)),
			Pw:   mk(name + ".pw." + role),
		}
	}
	g.Adm, g.Op, g.Ord = u("adm"), u("op"), u("ord")
	g.EmptyPw = mk(name + ".pw.empty")
	g.WildPw = mk(name + ".pw.wild")
	g.Hmac = sum32("hmac:" + name)
	g.Kid = f.mk.datum(name, "key-id", mk(name+".kid"))
	x, y := ecPoint(name)
	f.mk.secret("hmac-key", b64(g.Hmac))
	f.mk.secret("ec-key", x)
	f.mk.secret("ec-key", y)
	users := map[string]any{
		g.Adm.Name: map[string]any{"password": f.pwForm(forms[0], g.Adm.Pw, name+".adm"), "permissions": "admin"},
		g.Op.Name:  map[string]any{"password": f.pwForm(forms[1], g.Op.Pw, name+".op"), "permissions": "op"},
		g.Ord.Name: map[string]any{"password": f.pwForm(forms[2], g.Ord.Pw, name+".ord"), "permissions": "present"},
		"":         map[string]any{"password": f.pwForm("plain", g.EmptyPw, name+".empty"), "permissions": "message"},
	}
	d := map[string]any{
		"displayName": f.mk.datum(name, "displayName", mk(name+".displayName")),
		"description": f.mk.datum(name, "description", mk(name+".description")),
		"contact":     f.mk.datum(name, "contact", mk(name+".contact")),
		"comment":     f.mk.datum(name, "comment", mk(name+".comment")),
		"authPortal":  f.mk.datum(name, "authPortal", "https://"+mk(name+".portal")+".example/"),
		"max-clients": 5,
		"public":      true,
		"users":       users,
		"wildcard-user": map[string]any{
			"password": f.pwForm("plain", g.WildPw, name+".wild"), "permissions": "present"},
		"authKeys": []any{
			map[string]any{"kty": "oct", "alg": "HS256", "k": b64(g.Hmac), "kid": g.Kid},
			map[string]any{"kty": "EC", "alg": "ES256", "crv": "P-256", "x": x, "y": y,
				"kid": f.mk.datum(name, "key-id", mk(name+".kid2"))},
		},
	}
	if legacy {
		// obsolete on-disk format: upgraded to a "present" user on load
		g.Legacy = userFx{Name: f.mk.datum(name, "user-name", mk(name+".user.legacy")), Pw: mk(name + ".pw.legacy")}
		f.mk.secret("plain-password", g.Legacy.Pw)
		// ... plus entries the upgrade ignores: the same user a second time, a
		// user that "users" already defines, an anonymous entry beside the
		// wildcard user -- each with a password of its own
		dup := f.mk.secret("plain-password", mk(name+".pw.legacy-dup"))
		dupOrd := f.mk.secret("plain-password", mk(name+".pw.legacy-ord"))
		dupAnon := f.mk.secret("plain-password", mk(name+".pw.legacy-anon"))
		d["presenter"] = []any{map[string]any{"username": g.Legacy.Name, "password": g.Legacy.Pw},
			map[string]any{"username": g.Legacy.Name, "password": dup}}
		d["other"] = []any{map[string]any{"username": g.Ord.Name, "password": dupOrd}, map[string]any{"password": dupAnon}}
	}
	for k, v := range extra {
		d[k] = v
	}
	f.groups[name] = g
	f.files["groups/"+name+".json"] = mustJSON(d)
}

const (
	g1 = "g1mk"
	g2 = "g2mk"
	g3 = "g3mk"
)

func tm(y int) string { return fmt.Sprintf("%04d-06-01T00:00:00Z", y) }

// buildFixture builds the world of the authz product.  The virtual clock
// stands at 2030-01-01.
func buildFixture() *fixture {
	f := &fixture{files: map[string][]byte{}, groups: map[string]*groupFx{}, tokens: map[string]*tokenFx{}}
	f.srvAdm = userFx{Name: f.mk.datum("", "server-user-name", mk("srv.user.root")), Pw: f.mk.secret("server-password", mk("srv.pw.root"))}
	f.srvUsr = userFx{Name: f.mk.datum("", "server-user-name", mk("srv.user.plain")), Pw: f.mk.secret("server-password", mk("srv.pw.plain"))}
	f.files["data/config.json"] = mustJSON(map[string]any{
		"writableGroups":   true,
		"canonicalHost":    "galene.example",
		"allowAdminOrigin": []string{"https://admin.example"},
		"users": map[string]any{
			f.srvAdm.Name: map[string]any{"password": f.srvAdm.Pw, "permissions": "admin"},
			f.srvUsr.Name: map[string]any{"password": f.srvUsr.Pw, "permissions": "op"},
		},
	})
	f.addGroup(g1, [3]string{"plain", "pbkdf2", "bcrypt"}, false, nil)
	f.addGroup(g2, [3]string{"pbkdf2", "bcrypt", "plain"}, true, nil)
	f.addGroup(g3, [3]string{"bcrypt", "plain", "pbkdf2"}, false, map[string]any{"auto-subgroups": true})

	var lines []string
	tok := func(name, grp string, sub bool, perms []string, exp, nbf int) {
		t := &tokenFx{Name: name, Group: grp, Token: f.mk.datum(grp, "token", mk("token."+name))}
		m := map[string]any{
			"token": t.Token, "group": grp, "permissions": perms,
			"username": f.mk.datum(grp, "token-username", mk("token.user."+name)),
			"issuedBy": f.mk.datum(grp, "token-issuer", mk("token.issuer."+name)),
			"expires":  tm(exp),
		}
		if sub {
			m["includeSubgroups"] = true
		}
		if nbf != 0 {
			m["not-before"] = tm(nbf)
		}
		b, _ := json.Marshal(m)
		lines = append(lines, string(b))
		f.tokens[name] = t
	}
	tok("global-admin", "", true, []string{"admin"}, 2031, 0)
	tok("g1-admin", g1, false, []string{"admin"}, 2031, 0)
	tok("g1-noadmin", g1, false, []string{"op", "present", "token"}, 2031, 0)
	tok("expired-admin", "", true, []string{"admin"}, 2029, 0) // 2029-06-01 < 2030-01-01
	tok("notyet-admin", "", true, []string{"admin"}, 2032, 2031)
	tok("g2-noadmin", g2, false, []string{"present"}, 2031, 0)
	f.files["data/tokens.jsonl"] = []byte(strings.Join(lines, "\n") + "\n")
	return f
}

// ---- sandbox

type sandbox struct{ root string }

func newSandbox() *sandbox {
	// a memory file system when there is one: rewriteDescriptionFile syncs
	base := ""
	if fi, err := os.Stat("/dev/shm"); err == nil && fi.IsDir() {
		base = "/dev/shm"
	}
	d, err := os.MkdirTemp(base, "c17-")
	if err != nil {
		d, err = os.MkdirTemp("", "c17-")
	}
	if err != nil {
		panic(err)
	}
	os.MkdirAll(filepath.Join(d, "static"), 0700)
	return &sandbox{root: d}
}

func (s *sandbox) close() { os.RemoveAll(s.root) }

// bind points galene's package-level state at the sandbox.
func (s *sandbox) bind() {
	group.Directory = filepath.Join(s.root, "groups")
	group.DataDirectory = filepath.Join(s.root, "data")
	token.SetStatefulFilename(filepath.Join(s.root, "data", "tokens.jsonl"))
	if err := webserver.VerifC17SetStaticRoot(filepath.Join(s.root, "static")); err != nil {
		panic(err)
	}
}

// write puts one file (nil content removes it) and gives it a fresh logical
// mtime, so that galene's size+mtime caches see a new version.
func (s *sandbox) write(rel string, content []byte) {
	p := filepath.Join(s.root, rel)
	if content == nil {
		os.Remove(p)
		return
	}
	os.MkdirAll(filepath.Dir(p), 0700)
	if err := os.WriteFile(p, content, 0600); err != nil {
		panic(err)
	}
	vos.Stamp(p)
}

// restore re-creates the groups and data trees from files.
func (s *sandbox) restore(files map[string][]byte) {
	os.RemoveAll(filepath.Join(s.root, "groups"))
	os.RemoveAll(filepath.Join(s.root, "data"))
	os.MkdirAll(filepath.Join(s.root, "groups"), 0700)
	os.MkdirAll(filepath.Join(s.root, "data"), 0700)
	names := make([]string, 0, len(files))
	for n := range files {
		names = append(names, n)
	}
	sort.Strings(names)
	for _, n := range names {
		s.write(n, files[n])
	}
}

// treeHash hashes names and contents of the groups and data trees (not
// mtimes), skipping the relative paths in skip.
func (s *sandbox) treeHash(skip ...string) string {
	h := sha256.New()
	for _, top := range []string{"groups", "data"} {
		base := filepath.Join(s.root, top)
		filepath.WalkDir(base, func(p string, d fs.DirEntry, err error) error {
			if err != nil {
				return nil
			}
			rel, _ := filepath.Rel(s.root, p)
			for _, k := range skip {
				if rel == k {
					return nil
				}
			}
			if d.IsDir() {
				fmt.Fprintf(h, "D %s\n", rel)
				return nil
			}
			b, _ := os.ReadFile(p)
			fmt.Fprintf(h, "F %s %d\n", rel, len(b))
			h.Write(b)
			return nil
		})
	}
	return hex.EncodeToString(h.Sum(nil))
}

// listTree describes the tree for violation messages.
func (s *sandbox) listTree() string {
	var out []string
	for _, top := range []string{"groups", "data"} {
		filepath.WalkDir(filepath.Join(s.root, top), func(p string, d fs.DirEntry, err error) error {
			if err == nil && !d.IsDir() {
				rel, _ := filepath.Rel(s.root, p)
				fi, _ := d.Info()
				out = append(out, fmt.Sprintf("%s(%d)", rel, fi.Size()))
			}
			return nil
		})
	}
	return strings.Join(out, " ")
}

func initProcess() {
	vtime.SetVirtual(true)
	vos.SetLogicalMtime(true)
}

// signJWT makes a cryptographic token for group grp.  The JWT library reads
// the real clock, so the validity window is taken around the real time.
func signJWT(key []byte, kid, grp string, perms []string) string {
	return signJWTAud(key, kid, "https://galene.example/group/"+grp+"/", perms)
}

// signJWTAud: the same with an arbitrary audience claim (a string or a list).
func signJWTAud(key []byte, kid string, aud any, perms []string) string {
	now := time.Now()
	t := jwt.NewWithClaims(jwt.SigningMethodHS256, jwt.MapClaims{
		"sub":         "jwtuser",
		"aud":         aud,
		"permissions": perms,
		"iat":         now.Add(-time.Hour).Unix(),
		"exp":         now.Add(48 * time.Hour).Unix(),
	})
	t.Header["kid"] = kid
	s, err := t.SignedString(key)
	if err != nil {
		panic(err)
	}
	return s
}

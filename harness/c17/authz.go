package main

import (
	"bytes"
	"encoding/json"
	"fmt"
	"io/fs"
	"net/http"
	"net/http/httptest"
	"os"
	"path/filepath"
	"runtime/debug"
	"sort"
	"strings"

	"github.com/jech/galene/group"
	"github.com/jech/galene/webserver"

	"verif/core"
	"verif/seqx"
)

// ---- requests

type reqSpec struct {
	Method      string `json:"method"`
	Path        string `json:"path"`
	Cred        string `json:"cred"`
	CType       string `json:"ctype,omitempty"`
	Body        string `json:"body,omitempty"`
	IfMatch     string `json:"if_match,omitempty"`
	IfNoneMatch string `json:"if_none_match,omitempty"`
}

type response struct {
	Status int
	Header http.Header
	Body   []byte
	Panic  string
	Stack  string
}

type cred struct {
	Name   string
	Basic  bool
	User   string
	Pw     string
	Bearer string

	Global   bool   // server administrator / global admin token
	AdminOf  string // administrator of this group (and of what lives under it)
	TokenFor string // admin token whose scope is exactly this group
	OwnGroup string // may set the password of OwnUser in OwnGroup
	OwnUser  string
	Class    string // class when the credential is insufficient
	Rank     int    // weakest first
}

func do(rs reqSpec, c *cred) (resp response) {
	body := strings.NewReader(rs.Body)
	r := httptest.NewRequest(rs.Method, "http://galene.example"+rs.Path, body)
	if rs.CType != "" {
		r.Header.Set("Content-Type", rs.CType)
	}
	if rs.IfMatch != "" {
		r.Header.Set("If-Match", rs.IfMatch)
	}
	if rs.IfNoneMatch != "" {
		r.Header.Set("If-None-Match", rs.IfNoneMatch)
	}
	if rs.Method == "OPTIONS" {
		r.Header.Set("Origin", "https://admin.example")
		r.Header.Set("Access-Control-Request-Method", "PUT")
		r.Header.Set("Access-Control-Request-Headers", "authorization, content-type")
	}
	if c != nil {
		if c.Basic {
			r.SetBasicAuth(c.User, c.Pw)
		} else if c.Bearer != "" {
			r.Header.Set("Authorization", "Bearer "+c.Bearer)
		}
	}
	rec := httptest.NewRecorder()
	func() {
		defer func() {
			if p := recover(); p != nil {
				resp.Panic = fmt.Sprint(p)
				resp.Stack = galeneFrames(string(debug.Stack()))
			}
		}()
		webserver.VerifC17APIHandler(rec, r)
	}()
	resp.Status = rec.Code
	resp.Header = rec.Header()
	resp.Body = rec.Body.Bytes()
	return resp
}

// galeneFrames keeps the function lines of galene code from a stack dump.
func galeneFrames(stack string) string {
	var out []string
	lines := strings.Split(stack, "\n")
	for i, l := range lines {
		if strings.HasPrefix(l, "github.com/jech/galene/") && !strings.Contains(l, "VerifC17") && i+1 < len(lines) {
			fn := l
			if j := strings.Index(fn, "("); j > 0 {
				fn = fn[:j]
			}
			loc := strings.TrimSpace(lines[i+1])
			if j := strings.Index(loc, " +0x"); j > 0 {
				loc = loc[:j]
			}
			if j := strings.LastIndex(loc, "/"); j > 0 {
				k := strings.LastIndex(loc[:j], "/")
				loc = loc[k+1:]
			}
			out = append(out, fn+" ("+loc+")")
			if len(out) == 4 {
				break
			}
		}
	}
	return strings.Join(out, " <- ")
}

// visible is what a client can see of a response: status line aside, the
// headers and (except for HEAD, where net/http discards it) the body.
func (r *response) visible(method string) []byte {
	var b bytes.Buffer
	keys := make([]string, 0, len(r.Header))
	for k := range r.Header {
		keys = append(keys, k)
	}
	sort.Strings(keys)
	for _, k := range keys {
		for _, v := range r.Header[k] {
			b.WriteString(k + ": " + v + "\n")
		}
	}
	if method != "HEAD" {
		b.WriteString("\n")
		b.Write(r.Body)
	}
	return b.Bytes()
}

// ---- the endpoint shapes of apiHandler

type pathSpec struct {
	Path    string
	Shape   string
	Exists  bool   // the router has a resource of this shape
	G       string // addressed group, cleaned ("" = server-wide)
	U       string // addressed user (user and user-password shapes)
	Missing bool   // the addressed group/user/token is not in the fixture
}

const apiRoot = "/galene-api/v0"

func (f *fixture) paths() []pathSpec {
	var ps []pathSpec
	add := func(p, shape string, exists bool, g, u string, missing bool) {
		ps = append(ps, pathSpec{Path: p, Shape: shape, Exists: exists, G: g, U: u, Missing: missing})
	}
	// shapes outside /.groups
	add(apiRoot+"/.stats", "stats", true, "", "", false)
	add(apiRoot+"/.stats/x", "stats-extra", false, "", "", false)
	add(apiRoot+"/.foo", "unknown-kind", false, "", "", false)
	add(apiRoot+"/", "version-root", false, "", "", false)
	add(apiRoot, "version-root", false, "", "", false)
	add("/galene-api/v1/.groups/", "wrong-version", false, "", "", false)
	add("/galene-api/v1/.groups/"+g1, "wrong-version", false, "", "", false)
	add("/galene-api/.groups/"+g1, "no-version", false, "", "", false)
	add("/galene-api/.stats", "no-version", false, "", "", false)
	add("/galene-api/", "api-root", false, "", "", false)
	add("/galene-api", "api-root", false, "", "", false)
	add(apiRoot+"/.groups/", "groups-list", true, "", "", false)
	add(apiRoot+"/.groups/"+g1+"/", "group", true, g1, "", false) // trailing slash, as in galene-api.md

	type ginst struct {
		seg     string // path segment(s)
		clean   string
		users   *groupFx // whose users to address
		missing bool
	}
	insts := []ginst{
		{"", "", f.groups[g1], true}, // /.groups/.users/... : the empty group name
		{g1, g1, f.groups[g1], false},
		{g2, g2, f.groups[g2], false},
		{g3 + "/sub", g3 + "/sub", f.groups[g3], false}, // automatic subgroup of g3
		{"nogrp", "nogrp", f.groups[g1], true},
		{g1 + "/sub", g1 + "/sub", f.groups[g1], true}, // g1 has no subgroups
	}
	for _, gi := range insts {
		base := apiRoot + "/.groups"
		if gi.seg != "" {
			base += "/" + gi.seg
		}
		g := gi.clean
		gm := gi.missing
		add(base, pick(gi.seg == "", "groups-list", "group"), true, g, "", gm)
		add(base+"/.users/", "users-list", true, g, "", gm)
		add(base+"/.users", "users-noslash", false, g, "", gm)
		for i, u := range []string{gi.users.Ord.Name, gi.users.Adm.Name, "nouser"} {
			um := gm || i == 2
			add(base+"/.users/"+u, "user", true, g, u, um)
			add(base+"/.users/"+u+"/.password", "user-password", true, g, u, um)
			add(base+"/.users/"+u+"/.foo", "user-unknown-kind", false, g, u, um)
			add(base+"/.users/"+u+"/.password/x", "user-password-extra", false, g, u, um)
		}
		add(base+"/.users/"+gi.users.Ord.Name+"/x", "user", true, g, gi.users.Ord.Name+"/x", true)
		add(base+"/.empty-user", "empty-user", true, g, "", gm)
		add(base+"/.empty-user/.password", "empty-user-password", true, g, "", gm)
		add(base+"/.empty-user/x", "empty-user-extra", false, g, "", gm)
		add(base+"/.wildcard-user", "wildcard-user", true, g, "", gm)
		add(base+"/.wildcard-user/.password", "wildcard-user-password", true, g, "", gm)
		add(base+"/.wildcard-user/x", "wildcard-user-extra", false, g, "", gm)
		add(base+"/.keys", "keys", true, g, "", gm)
		add(base+"/.keys/x", "keys-extra", false, g, "", gm)
		add(base+"/.tokens/", "tokens-list", true, g, "", gm)
		add(base+"/.tokens", "tokens-noslash", false, g, "", gm)
		for _, t := range []string{"g1-noadmin", "g2-noadmin", "global-admin"} {
			tf := f.tokens[t]
			add(base+"/.tokens/"+tf.Token, "tokens", true, g, "", (gm && g != "") || tf.Group != g)
		}
		add(base+"/.tokens/notoken", "tokens", true, g, "", true)
		add(base+"/.foo", "group-unknown-kind", false, g, "", gm)
	}
	return ps
}

func pick[T any](c bool, a, b T) T {
	if c {
		return a
	}
	return b
}

var methods = []string{"GET", "HEAD", "PUT", "POST", "DELETE", "PATCH", "OPTIONS"}

const (
	newPassword    = "c17-new-password"
	postedPassword = "c17-posted-password"
	wrongCType     = "text/html"
)

// bodyFor returns the valid body and its content type for a shape/method.
func bodyFor(shape, method string) (ctype, body string) {
	switch method {
	case "PUT", "POST", "PATCH":
	default:
		return "", ""
	}
	switch shape {
	case "group", "groups-list":
		return "application/json", `{"displayName":"changed-by-c17","max-clients":3}`
	case "user", "empty-user", "wildcard-user":
		return "application/json", `{"permissions":"observe"}`
	case "user-password", "empty-user-password", "wildcard-user-password":
		if method == "POST" {
			return "text/plain", postedPassword
		}
		return "application/json", `"` + newPassword + `"`
	case "keys":
		return "application/jwk-set+json", `{"keys":[{"kty":"oct","alg":"HS256","k":"` + b64(sum32("c17-put-key")) + `"}]}`
	case "tokens", "tokens-list":
		return "application/json", `{"permissions":["present"],"expires":"` + tm(2031) + `"}`
	}
	return "application/json", `{}`
}

// ---- credentials

func (f *fixture) creds() []*cred {
	var cs []*cred
	add := func(c *cred) {
		c.Rank = len(cs)
		cs = append(cs, c)
	}
	G1, G2, G3 := f.groups[g1], f.groups[g2], f.groups[g3]
	add(&cred{Name: "none", Class: "none"})
	add(&cred{Name: "garbage-token", Bearer: "c17-no-such-token", Class: "invalid-token"})
	add(&cred{Name: "server-admin-wrong-password", Basic: true, User: f.srvAdm.Name, Pw: "c17-wrong", Class: "bad-password"})
	add(&cred{Name: "g1-admin-wrong-password", Basic: true, User: G1.Adm.Name, Pw: "c17-wrong", Class: "bad-password"})
	add(&cred{Name: "g1-admin-empty-password", Basic: true, User: G1.Adm.Name, Pw: "", Class: "bad-password"})
	add(&cred{Name: "expired-admin-token", Bearer: f.tokens["expired-admin"].Token, Class: "invalid-token"})
	add(&cred{Name: "notyet-admin-token", Bearer: f.tokens["notyet-admin"].Token, Class: "invalid-token"})
	add(&cred{Name: "jwt-g1-admin-signed-with-g2-key", Bearer: signJWT(G2.Hmac, G1.Kid, g1, []string{"admin"}), Class: "invalid-token"})
	// signed with g2's own key, admin; no single audience entry names both this
	// server and g2 (one names this server and g1, one names g2 on another server)
	add(&cred{Name: "jwt-g2-admin-audience-split-over-two-entries", Bearer: signJWTAud(G2.Hmac, G2.Kid,
		[]string{"https://elsewhere.example/group/" + g2 + "/", "https://galene.example/group/" + g1 + "/"}, []string{"admin"}), Class: "invalid-token"})
	// the same for another server only
	add(&cred{Name: "jwt-g2-admin-for-another-server", Bearer: signJWTAud(G2.Hmac, G2.Kid,
		"https://elsewhere.example/group/"+g2+"/", []string{"admin"}), Class: "invalid-token"})
	add(&cred{Name: "g1-wildcard-login", Basic: true, User: "c17-somebody", Pw: G1.WildPw, Class: "wildcard-login"})
	// the password of the group's entry for the EMPTY username, presented
	// under some other (or the empty) username: an ordinary login at best
	add(&cred{Name: "g1-empty-user-password-other-username", Basic: true, User: "c17-somebody-else", Pw: G1.EmptyPw, Class: "empty-user-password"})
	add(&cred{Name: "g1-empty-user-password-empty-username", Basic: true, User: "", Pw: G1.EmptyPw, Class: "empty-user-password"})
	add(&cred{Name: "server-nonadmin-user", Basic: true, User: f.srvUsr.Name, Pw: f.srvUsr.Pw, Class: "ordinary-user"})
	add(&cred{Name: "g1-ordinary-user", Basic: true, User: G1.Ord.Name, Pw: G1.Ord.Pw, Class: "ordinary-user", OwnGroup: g1, OwnUser: G1.Ord.Name})
	add(&cred{Name: "g2-ordinary-user", Basic: true, User: G2.Ord.Name, Pw: G2.Ord.Pw, Class: "ordinary-user", OwnGroup: g2, OwnUser: G2.Ord.Name})
	add(&cred{Name: "g3-ordinary-user", Basic: true, User: G3.Ord.Name, Pw: G3.Ord.Pw, Class: "ordinary-user", OwnGroup: g3, OwnUser: G3.Ord.Name})
	add(&cred{Name: "g1-op", Basic: true, User: G1.Op.Name, Pw: G1.Op.Pw, Class: "op", OwnGroup: g1, OwnUser: G1.Op.Name})
	add(&cred{Name: "g1-nonadmin-token", Bearer: f.tokens["g1-noadmin"].Token, Class: "non-admin-token"})
	add(&cred{Name: "jwt-g1-nonadmin", Bearer: signJWT(G1.Hmac, G1.Kid, g1, []string{"op", "present"}), Class: "non-admin-token"})
	add(&cred{Name: "g1-admin-token", Bearer: f.tokens["g1-admin"].Token, TokenFor: g1, Class: "out-of-scope-token"})
	add(&cred{Name: "jwt-g1-admin", Bearer: signJWT(G1.Hmac, G1.Kid, g1, []string{"admin"}), TokenFor: g1, Class: "out-of-scope-token"})
	add(&cred{Name: "g1-admin", Basic: true, User: G1.Adm.Name, Pw: G1.Adm.Pw, AdminOf: g1, Class: "other-group-admin"})
	add(&cred{Name: "g2-admin", Basic: true, User: G2.Adm.Name, Pw: G2.Adm.Pw, AdminOf: g2, Class: "other-group-admin"})
	add(&cred{Name: "g3-admin", Basic: true, User: G3.Adm.Name, Pw: G3.Adm.Pw, AdminOf: g3, Class: "other-group-admin"})
	add(&cred{Name: "server-admin", Basic: true, User: f.srvAdm.Name, Pw: f.srvAdm.Pw, Global: true, Class: "server-admin"})
	add(&cred{Name: "global-admin-token", Bearer: f.tokens["global-admin"].Token, Global: true, Class: "global-admin-token"})
	return cs
}

// owner maps an addressed group to the group whose definition governs it.
func owner(g string) string {
	if i := strings.Index(g, "/"); i >= 0 {
		return g[:i]
	}
	return g
}

// sufficient reports whether the property allows c to act on p: server
// administrator, administrator of the addressed group, bearer of an admin
// token in scope, or the user addressing their own password.
func (c *cred) sufficient(p *pathSpec) bool {
	if c.Global {
		return true
	}
	g := p.G
	if g == "" {
		return false
	}
	if c.AdminOf != "" && (g == c.AdminOf || strings.HasPrefix(g, c.AdminOf+"/")) {
		return true
	}
	if c.TokenFor != "" && g == c.TokenFor {
		return true
	}
	if p.Shape == "user-password" && c.OwnGroup != "" && owner(g) == c.OwnGroup && p.U == c.OwnUser {
		return true
	}
	return false
}

// maySee reports whether data owned by group o may be shown to c.
func (c *cred) maySee(o string) bool {
	return c.Global || (o != "" && (c.AdminOf == o || c.TokenFor == o))
}

// mayChange reports whether c may change state belonging to what ("group
// <name>", "server" ...), as named by touchedGroups.
func (c *cred) mayChange(what string) bool {
	if c.Global {
		return true
	}
	for _, g := range []string{c.AdminOf, c.TokenFor, c.OwnGroup} {
		if g != "" && what == "group "+g {
			return true
		}
	}
	return false
}

func (c *cred) class(p *pathSpec) string {
	if c.sufficient(p) {
		switch {
		case c.AdminOf != "":
			return "group-admin"
		case c.TokenFor != "":
			return "scoped-admin-token"
		case c.OwnUser != "":
			return "own-password"
		}
	}
	return c.Class
}

// ---- one product point

type point struct {
	P *pathSpec
	M string
	C *cred
	V int // 0: valid body and content type, 1: wrong content type
}

func (pt *point) spec() reqSpec {
	ct, body := bodyFor(pt.P.Shape, pt.M)
	if pt.V == 1 {
		ct = wrongCType
	}
	return reqSpec{Method: pt.M, Path: pt.P.Path, Cred: pt.C.Name, CType: ct, Body: body}
}

type authzWorld struct {
	sb *sandbox
	fx *fixture
	// coverage per oracle class: insufficient / sufficient / preflight
	part map[string]*partStat
	// statistics of this shard
	execs, changed, ok2xx, refused, panics int64
}

type partStat struct {
	out     core.Outcomes
	execs   int64
	samples []any
}

var partNames = []string{"insufficient", "sufficient", "preflight"}

func newAuthzWorld() *authzWorld {
	w := &authzWorld{sb: newSandbox(), fx: buildFixture(), part: map[string]*partStat{}}
	for _, n := range partNames {
		w.part[n] = &partStat{}
	}
	w.sb.bind()
	w.reset()
	w.fx.hash = w.sb.treeHash()
	return w
}

// reset restores the fixture; g1 is (re)loaded into the in-memory registry
// so that its description is served from the cache, g2 and g3 only exist on
// disk.
func (w *authzWorld) reset() {
	w.sb.restore(w.fx.files)
	if _, err := group.Add(g1, nil); err != nil {
		panic("fixture: cannot load " + g1 + ": " + err.Error())
	}
}

// touchedGroups compares the sandbox with the fixture and names the owners
// of everything that differs: "group <g>" for a group file (or anything
// below groups/<g>/) and for a token of that group, "server" for server-wide
// tokens and the configuration.
func (w *authzWorld) touchedGroups() []string {
	set := map[string]bool{}
	cur := map[string][]byte{}
	for _, top := range []string{"groups", "data"} {
		filepath.WalkDir(filepath.Join(w.sb.root, top), func(p string, d fs.DirEntry, err error) error {
			if err == nil && !d.IsDir() {
				rel, _ := filepath.Rel(w.sb.root, p)
				b, _ := os.ReadFile(p)
				cur[rel] = b
			}
			return nil
		})
	}
	names := map[string]bool{}
	for n := range cur {
		names[n] = true
	}
	for n := range w.fx.files {
		names[n] = true
	}
	tokens := func(b []byte) map[string]string {
		m := map[string]string{}
		for _, l := range strings.Split(string(b), "\n") {
			if strings.TrimSpace(l) == "" {
				continue
			}
			var t struct {
				Token string `json:"token"`
				Group string `json:"group"`
			}
			json.Unmarshal([]byte(l), &t)
			v, _ := generic([]byte(l))
			m[t.Token+"\x00"+t.Group] = jstr(v)
		}
		return m
	}
	for n := range names {
		if bytes.Equal(cur[n], w.fx.files[n]) && (cur[n] == nil) == (w.fx.files[n] == nil) {
			continue
		}
		switch {
		case n == "data/tokens.jsonl":
			a, b := tokens(w.fx.files[n]), tokens(cur[n])
			for k, v := range a {
				if b[k] != v {
					set[owner(k[strings.Index(k, "\x00")+1:])] = true
				}
			}
			for k := range b {
				if _, ok := a[k]; !ok {
					set[owner(k[strings.Index(k, "\x00")+1:])] = true
				}
			}
		case strings.HasPrefix(n, "groups/"):
			g := strings.TrimPrefix(n, "groups/")
			if i := strings.Index(g, "/"); i >= 0 {
				g = g[:i]
			}
			set[strings.TrimSuffix(g, ".json")] = true
		default:
			set[""] = true
		}
	}
	var out []string
	for g := range set {
		out = append(out, pick(g == "", "the server", "group "+g))
	}
	sort.Strings(out)
	return out
}

func describe(rs reqSpec, r *response) string {
	b := string(r.Body)
	if len(b) > 200 {
		b = b[:200] + "..."
	}
	s := fmt.Sprintf("%s %s cred=%s", rs.Method, rs.Path, rs.Cred)
	if rs.CType != "" {
		s += fmt.Sprintf(" content-type=%s body=%s", rs.CType, rs.Body)
	}
	if r.Panic != "" {
		return s + " -> panic: " + r.Panic
	}
	return s + fmt.Sprintf(" -> %d %q", r.Status, strings.TrimSpace(b))
}

// run executes one point and applies the oracle.
func (w *authzWorld) run(pt *point) []core.Violation {
	rs := pt.spec()
	r := do(rs, pt.C)
	after := w.sb.treeHash()
	changed := after != w.fx.hash
	var tree string
	var touched []string
	if changed {
		tree = w.sb.listTree()
		touched = w.touchedGroups()
		w.reset()
	}
	w.execs++
	var vs []core.Violation
	class := pt.C.class(pt.P)
	viol := func(sig, what string) {
		vs = append(vs, core.Violation{
			Signature: "C17/" + sig, Sub: "authz-product",
			What:   what + ": " + describe(rs, &r),
			Replay: map[string]any{"sub": "authz-product", "request": rs, "rank": pt.C.Rank, "class": class},
		})
	}
	suff := pt.C.sufficient(pt.P)
	ps := w.part[pick(pt.M == "OPTIONS", "preflight", pick(suff, "sufficient", "insufficient"))]
	ps.execs++
	ps.out.Add(fmt.Sprintf("%s|%s|%s|%d|%v|%v", pt.P.Shape, pt.M, class, r.Status, changed, r.Panic != ""))
	if len(ps.samples) < 1 && ((suff && changed) || (!suff && pt.M == "PUT" && pt.P.G == g1 && pt.C.Rank > 8) || (pt.M == "OPTIONS" && r.Status == 200 && pt.P.G == g1)) {
		ps.samples = append(ps.samples, map[string]any{"request": rs, "status": r.Status, "state_changed": changed})
	}
	if changed {
		w.changed++
	}

	// (c) every request gets a response
	if r.Panic != "" {
		w.panics++
		sig := "panic/" + pt.P.Shape + "-" + pt.M
		if pt.P.Missing {
			sig += "-missing"
		}
		viol(sig, "the handler panicked at "+r.Stack+" (no HTTP response is sent)")
		if !suff && changed {
			viol(fmt.Sprintf("unauthorised-effect/%s/%s/%s", pt.P.Shape, pt.M, class),
				"a request with an insufficient credential changed the stored state ("+tree+")")
		}
		return vs
	}
	if r.Status >= 200 && r.Status < 300 {
		w.ok2xx++
	}

	vis := r.visible(pt.M)
	// (b) no response ever contains a password, hash or key
	for _, m := range w.fx.mk.list {
		if m.Secret && bytes.Contains(vis, []byte(m.Val)) {
			viol(fmt.Sprintf("secret-in-response/%s/%s", pt.P.Shape, m.Kind),
				fmt.Sprintf("the response contains a stored secret (%s %q)", m.Kind, m.Val))
		}
	}
	if pt.M == "OPTIONS" {
		return vs // CORS preflight: outside the refusal clause
	}
	if !suff {
		// (a) refusal, no effect, no disclosure
		if r.Status == 401 {
			w.refused++
		}
		if !(r.Status == 401 || (r.Status == 404 && !pt.P.Exists)) {
			viol(fmt.Sprintf("unauthorised-status/%s/%s/%s", pt.P.Shape, pt.M, class),
				fmt.Sprintf("a request with an insufficient credential was answered %d instead of 401", r.Status))
		}
		if changed {
			viol(fmt.Sprintf("unauthorised-effect/%s/%s/%s", pt.P.Shape, pt.M, class),
				"a request with an insufficient credential changed the stored state ("+tree+")")
		}
	}
	// effect confined to what the credential administers
	if suff && changed && !pt.C.Global {
		for _, t := range touched {
			if !pt.C.mayChange(t) {
				viol(fmt.Sprintf("cross-group-effect/%s/%s/%s", pt.P.Shape, pt.M, class),
					fmt.Sprintf("the request changed stored state that belongs to %s, which the credential does not administer", t))
				break
			}
		}
	}
	// disclosure: a datum of a group is only shown to those who administer it
	for _, m := range w.fx.mk.list {
		if m.Secret || !bytes.Contains(vis, []byte(m.Val)) {
			continue
		}
		if !suff {
			viol(fmt.Sprintf("unauthorised-disclosure/%s/%s/%s", pt.P.Shape, pt.M, class),
				fmt.Sprintf("the response to an insufficient credential contains group data (%s %q of %q)", m.Kind, m.Val, m.Owner))
			break
		}
		if !pt.C.maySee(m.Owner) {
			viol(fmt.Sprintf("cross-group-disclosure/%s/%s/%s", pt.P.Shape, pt.M, class),
				fmt.Sprintf("the response contains a datum of a group the credential does not administer (%s %q of group %q)", m.Kind, m.Val, m.Owner))
			break
		}
	}
	return vs
}

// product enumerates the full product; shard s of n takes every n-th point.
func runAuthz(res *core.Result, shard, shards int) {
	w := newAuthzWorld()
	defer w.sb.close()
	paths := w.fx.paths()
	creds := w.fx.creds()

	// fixture sanity: without this the product would be vacuous
	var admin, nobody *cred
	for _, c := range creds {
		if c.Name == "server-admin" {
			admin = c
		}
		if c.Name == "none" {
			nobody = c
		}
	}
	probe := reqSpec{Method: "GET", Path: apiRoot + "/.groups/" + g1}
	r := do(probe, admin)
	if r.Status != 200 || !bytes.Contains(r.Body, []byte(mk(g1+".displayName"))) {
		res.Fault = "C17 fixture: server administrator cannot read " + g1 + ": " + describe(probe, &r)
		return
	}
	accepted := []string{}
	if shard <= 0 {
		for _, c := range creds {
			p := pathSpec{Path: probe.Path, Shape: "group", Exists: true, G: g1}
			if c.sufficient(&p) {
				r := do(probe, c)
				accepted = append(accepted, fmt.Sprintf("%s:%d", c.Name, r.Status))
			}
		}
	}
	_ = nobody

	dims := []int{len(paths), len(methods), len(creds), 2}
	var idx int64 = -1
	n, complete := seqx.Product(dims, func(ix []int) bool {
		pt := point{P: &paths[ix[0]], M: methods[ix[1]], C: creds[ix[2]], V: ix[3]}
		if pt.V == 1 {
			if ct, _ := bodyFor(pt.P.Shape, pt.M); ct == "" {
				return true // no body: no content-type variant
			}
		}
		if pt.V == 0 {
			idx++ // both content-type variants of a request run in the same shard
		}
		if shards > 1 && int(idx%int64(shards)) != shard {
			return true
		}
		if idx%256 == 0 && !core.TimeLeft() {
			return false
		}
		for _, v := range w.run(&pt) {
			res.Violate(v)
		}
		return true
	})
	_ = n
	note := fmt.Sprintf("%d paths x %d methods x %d credentials x {valid body, wrong content-type}; outcomes = distinct (shape, method, credential class, status, state changed), largest shard",
		len(paths), len(methods), len(creds))
	if len(accepted) > 0 {
		res.Assume(fmt.Sprintf("fixture self-check (measured in shard 0): GET %s answers %s; of the %d requests of shard 0, %d were answered 401, %d 2xx, %d changed the stored state (fixture then restored), %d panicked",
			probe.Path, strings.Join(accepted, " "), w.execs, w.refused, w.ok2xx, w.changed, w.panics))
	}
	oracle := map[string]string{
		"insufficient": "401 (404 for shapes the router lacks), tree hash unchanged, no datum marker, no secret marker, no panic",
		"sufficient":   "no secret marker, no datum of a group the credential does not administer, no panic",
		"preflight":    "OPTIONS: no secret marker, no panic",
	}
	for _, n := range partNames {
		ps := w.part[n]
		res.AddSub(core.Sub{
			Name: "authz-product/" + n, Executions: ps.execs, States: ps.execs, Transitions: ps.execs,
			Outcomes: ps.out.N(), Exhaustive: complete,
			Bound:   "full product method x endpoint shape x credential x content-type; oracle: " + oracle[n],
			Note:    note,
			Samples: ps.samples,
		})
	}
}

// replayAuthz re-runs one request on a fresh fixture.
func replayAuthz(rs reqSpec) []core.Violation {
	w := newAuthzWorld()
	defer w.sb.close()
	paths := w.fx.paths()
	creds := w.fx.creds()
	var pt point
	for i := range paths {
		if paths[i].Path == rs.Path {
			pt.P = &paths[i]
		}
	}
	for _, c := range creds {
		if c.Name == rs.Cred {
			pt.C = c
		}
	}
	if pt.P == nil || pt.C == nil {
		return []core.Violation{{Signature: "C17/replay", What: "unknown path or credential in the replay artefact (markers containing a bcrypt salt vary between runs)"}}
	}
	pt.M = rs.Method
	if rs.CType == wrongCType {
		pt.V = 1
	}
	return w.run(&pt)
}

// keepWeakest keeps, for every (rule, shape, method), only the violation
// found with the weakest credential class; the others are counted.
func keepWeakest(res *core.Result) {
	type key string
	best := map[key]int{}
	count := map[key]map[string]bool{}
	rank := func(v *core.Violation) (int, string, bool) {
		m, ok := v.Replay.(map[string]any)
		if !ok {
			return 0, "", false
		}
		r, ok := m["rank"]
		if !ok {
			return 0, "", false
		}
		c, _ := m["class"].(string)
		switch x := r.(type) {
		case float64:
			return int(x), c, true
		case int:
			return x, c, true
		}
		return 0, "", false
	}
	prefix := func(sig string) (key, bool) {
		for _, p := range []string{"C17/unauthorised-status/", "C17/unauthorised-effect/", "C17/unauthorised-disclosure/", "C17/cross-group-disclosure/", "C17/cross-group-effect/"} {
			if strings.HasPrefix(sig, p) {
				return key(sig[:strings.LastIndex(sig, "/")]), true
			}
		}
		return "", false
	}
	for i := range res.Violations {
		v := &res.Violations[i]
		k, ok := prefix(v.Signature)
		r, c, ok2 := rank(v)
		if !ok || !ok2 {
			continue
		}
		if b, seen := best[k]; !seen || r < b {
			best[k] = r
		}
		if count[k] == nil {
			count[k] = map[string]bool{}
		}
		count[k][c] = true
	}
	var keep []core.Violation
	for _, v := range res.Violations {
		k, ok := prefix(v.Signature)
		r, _, ok2 := rank(&v)
		if ok && ok2 {
			if r != best[k] {
				continue
			}
			if n := len(count[k]); n > 1 {
				v.What += fmt.Sprintf(" [also with %d other credential classes]", n-1)
			}
		}
		keep = append(keep, v)
	}
	res.Violations = keep
}

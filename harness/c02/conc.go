package main

import (
	"bytes"
	"fmt"

	"github.com/pion/rtp"
	pcodecs "github.com/pion/rtp/codecs"

	"github.com/jech/galene/rtpconn"

	"verif/core"
	"verif/fwd"
	"verif/media"
	"verif/vrt"
)

// Concurrent sub-check: several down tracks are written concurrently (one
// writer goroutine per publisher, plus the RTCP listeners answering NACKs) and
// share the package-level buffer pool of the rewriting path.  Two real
// rtpDownTracks, each past a withheld frame (so that every packet is
// rewritten), write one packet each as controlled threads; the write stream is
// a scheduling point (the payload handed to it still lives in the pooled
// buffer) and the pool is a deterministic free list.  Oracle: each receiver
// gets its own source packet's payload with the expected picture id.

func concPrograms() []vrt.Program {
	mk := func(name string, nthreads int) vrt.Program {
		return vrt.Program{
			Name:       name,
			MaxPreempt: core.Pick(2, 3),
			MaxSteps:   20000,
			Setup: func() ([]func(), []string, func() (string, *core.Violation)) {
				type side struct {
					w    *fwd.World
					src  []byte
					want []byte
				}
				var sides []*side
				var serr error
				for k := 0; k < nthreads; k++ {
					w := fwd.New(fwd.VP8, 1)
					w.Down.SetLayer(rtpconn.VerifLayer{Tid: 0, WantedTid: 0, MaxTid: 2})
					mkp := func(i int, tid uint8, fill byte) []byte {
						return media.VP8{Hdr: media.Hdr{Seq: uint16(100 + i), TS: uint32(i) * 3000, Marker: true, PT: 96, SSRC: fwd.UpSSRC},
							X: true, I: true, M: true, PictureID: uint16(50 + i), T: true, TID: tid, S: true,
							Body: bytes.Repeat([]byte{fill}, 8+4*k)}.Bytes()
					}
					for i, tid := range []uint8{0, 1} { // frame 0 forwarded, frame 1 withheld
						if _, err := w.Down.Write(mkp(i, tid, 0x10)); err != nil && serr == nil {
							serr = err
						}
					}
					w.Rec.Take()
					src := mkp(2, 0, byte(0xA0+k))
					var in rtp.Packet
					if err := in.Unmarshal(src); err != nil {
						panic(err)
					}
					want := append([]byte(nil), in.Payload...)
					var v pcodecs.VP8Packet
					if _, err := v.Unmarshal(in.Payload); err != nil {
						panic(err)
					}
					e := (v.PictureID - 1) & 0x7FFF
					want[2], want[3] = 0x80|byte(e>>8), byte(e)
					sides = append(sides, &side{w: w, src: src, want: want})
				}
				var bodies []func()
				var names []string
				var werr error
				for k, s := range sides {
					s := s
					bodies = append(bodies, func() {
						if _, err := s.w.Down.Write(s.src); err != nil && werr == nil {
							werr = err
						}
					})
					names = append(names, fmt.Sprintf("writer-%d", k))
				}
				final := func() (string, *core.Violation) {
					defer func() {
						for _, s := range sides {
							s.w.Close()
						}
					}()
					if serr != nil || werr != nil {
						return "", &core.Violation{Signature: "HARNESS-FAULT", What: fmt.Sprint("Write failed: ", serr, werr)}
					}
					for k, s := range sides {
						out := s.w.Rec.Take()
						if len(out) != 1 {
							return "", &core.Violation{Signature: "C02/conc/not-forwarded", What: fmt.Sprintf("receiver %d got %d packets for one in-order base-layer packet", k, len(out))}
						}
						if !bytes.Equal(out[0].Payload, s.want) {
							return "", &core.Violation{Signature: "C02/conc/payload-changed",
								What: fmt.Sprintf("receiver %d: payload byte %d differs from the expected rewrite of its own source packet while another down track was being written concurrently (got %d bytes, fill %#x; expected %d bytes, fill %#x)",
									k, firstDiff(out[0].Payload, s.want), len(out[0].Payload), out[0].Payload[len(out[0].Payload)-1], len(s.want), s.want[len(s.want)-1])}
						}
					}
					return "ok", nil
				}
				return bodies, names, final
			},
			Classify: func(kind, info string) string { return "C02/conc/" + kind },
		}
	}
	ps := []vrt.Program{mk("conc/two-receivers-rewrite", 2)}
	if !core.Quick() {
		ps = append(ps, mk("conc/three-receivers-rewrite", 3))
	}
	return ps
}

func runConcurrent(res *core.Result, shard, shards int) {
	fwd.Init()
	defer vrt.SetMode(vrt.Tasks)
	for _, p := range concPrograms() {
		if !core.Want(p.Name) {
			continue
		}
		res.AddSub(vrt.Explore(p, res, shard, shards))
	}
}

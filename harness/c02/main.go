// C02 — forwarding rewrites only seqno, marker and the VP8 picture id; ids
// stay consecutive.
//
// For every stream configuration (codec, payload-descriptor shape, CSRC
// count, header extension, picture-id width and start value, start seqno) a
// BFS over all in-order arrival histories of whole frames (1–3 packets, each
// frame either at the base temporal layer or above it, i.e. withheld) is run
// through the real rtpDownTrack.Write; every packet that reaches the write
// stream is compared with its source packet using pion's independent parsers.
package main

import (
	"bytes"
	"encoding/json"
	"fmt"
	"os"
	"strings"
	"time"

	"github.com/pion/rtp"
	pcodecs "github.com/pion/rtp/codecs"
	"github.com/pion/webrtc/v4"

	gcodecs "github.com/jech/galene/codecs"
	"github.com/jech/galene/rtpconn"

	"verif/core"
	"verif/fwd"
	"verif/media"
	"verif/seqx"
	"verif/vrt"
)

type shape struct {
	Name    string
	Codec   string // vp8 | vp9 | opus | h264
	X, I, M bool
	L, T, K bool
	Flex    bool // vp9 flexible mode
	Parts   bool // vp8: one partition per packet (S=1 and the partition index on every packet, RFC 7741)
}

var shapes = []shape{
	{Name: "vp8-noX", Codec: "vp8"},
	{Name: "vp8-X-noI-T", Codec: "vp8", X: true, T: true},
	{Name: "vp8-I7-T", Codec: "vp8", X: true, I: true, T: true},
	{Name: "vp8-I15-T", Codec: "vp8", X: true, I: true, M: true, T: true},
	{Name: "vp8-I15-LTK", Codec: "vp8", X: true, I: true, M: true, L: true, T: true, K: true},
	{Name: "vp8-I7-L", Codec: "vp8", X: true, I: true, L: true},
	{Name: "vp8-I15-T-partitions", Codec: "vp8", X: true, I: true, M: true, T: true, Parts: true},
	{Name: "vp9-nonflex", Codec: "vp9", I: true, M: true, L: true},
	{Name: "vp9-flex", Codec: "vp9", I: true, L: true, Flex: true},
	{Name: "opus", Codec: "opus"},
	{Name: "h264", Codec: "h264"},
}

type config struct {
	Shape    int    `json:"shape"`
	CSRC     int    `json:"csrc"`
	Ext      bool   `json:"ext"`
	PidStart uint16 `json:"pid"`
	Seq      uint16 `json:"seq"`
	Sid      int    `json:"sid"` // vp9: selected spatial layer (0 or 1)
	// vp9: a switch to the other spatial layer is pending when the stream
	// starts (it completes at the first packet of the keyframe)
	Pending bool `json:"pending"`
	// vp9: the receiver joined mid-stream: no keyframe in the history, the
	// upper spatial layer of every picture is predicted from the lower one
	// only (P=0 on its packets), so a pending switch stays pending
	Mid bool `json:"mid"`
}

func (c config) String() string {
	s := fmt.Sprintf("%s/csrc%d/ext%v/pid%d/seq%d/sid%d", shapes[c.Shape].Name, c.CSRC, c.Ext, c.PidStart, c.Seq, c.Sid)
	if c.Pending {
		s += "-switch-pending"
	}
	if c.Mid {
		s += "-midstream"
	}
	return s
}

type op struct {
	N   int `json:"n"`   // packets in the frame
	Tid int `json:"tid"` // temporal layer of the frame
	// bandwidth feedback raises the wanted temporal layer to 1 between the
	// first and the second packet of this frame (what adjustLayer does)
	Raise bool `json:"raise,omitempty"`
	// the publisher's sequence numbers jump by 10000 before this frame (an
	// outage): the sequence map starts afresh, and so does the picture-id shift
	Jump bool `json:"jump,omitempty"`
}

type world struct {
	cfg      config
	sh       shape
	w        *fwd.World
	seq      uint16
	frames   int // source frames so far
	withheld int // frames withheld so far
	lastOut  int // source index of the last forwarded frame, -1
	outcome  string
	hist     []op
	raised   bool
	jumped   bool
	// the last two forwarded packets: source buffer and the payload that was
	// sent (a receiver may ask for them again: gotNACK re-runs Write on the
	// cached source packet)
	sent [][2][]byte
}

func codecOf(s shape) webrtc.RTPCodecParameters {
	switch s.Codec {
	case "vp8":
		return fwd.VP8
	case "vp9":
		return fwd.VP9
	case "opus":
		return fwd.Opus
	}
	return fwd.H264
}

func fresh(cfg config) func() seqx.World {
	return func() seqx.World {
		sh := shapes[cfg.Shape]
		w := fwd.New(codecOf(sh), 1)
		l := rtpconn.VerifLayer{Tid: 0, WantedTid: 0, MaxTid: 2}
		if sh.Codec == "vp9" {
			l.MaxSid = 1
			l.Sid = uint8(cfg.Sid)
			l.WantedSid = uint8(cfg.Sid)
			if cfg.Pending {
				l.WantedSid = uint8(1 - cfg.Sid)
			}
		}
		w.Down.SetLayer(l)
		return &world{cfg: cfg, sh: sh, w: w, seq: cfg.Seq, lastOut: -1}
	}
}

func (w *world) Close() { w.w.Close() }

func (w *world) Ops() []seqx.Op {
	var ops []seqx.Op
	maxN := core.Pick(2, 3)
	canHi := (w.sh.Codec == "vp8" && w.sh.X && w.sh.T) || w.sh.Codec == "vp9"
	// macro: 16384 x (one forwarded 1-packet frame, one withheld 4-packet
	// frame): exactly 65536 packets withheld, so the seqno shift wraps to 0
	// while the picture-id shift does not
	if canHi && w.sh.Codec == "vp8" && w.sh.M && !w.sh.Parts && w.frames == 1 && w.cfg.CSRC == 0 && !w.cfg.Ext && (w.cfg.PidStart == 0 || !core.Quick()) {
		ops = append(ops, op{N: -16384, Tid: 1})
	}
	// a retransmission of the last / last but one forwarded packet
	for k := range w.sent {
		ops = append(ops, op{N: 0, Tid: k})
	}
	if w.sh.Codec == "vp8" && w.sh.X && w.sh.I && w.sh.T && !w.sh.Parts && w.frames > 1 && !w.jumped {
		ops = append(ops, op{N: 1, Tid: 0, Jump: true})
	}
	if w.sh.Parts && w.frames > 0 && !w.raised {
		ops = append(ops, op{N: 2, Tid: 1, Raise: true})
	}
	for n := 1; n <= maxN; n++ {
		ops = append(ops, op{N: n, Tid: 0})
		if canHi && w.frames > 0 { // a stream starts with a base-layer frame
			ops = append(ops, op{N: n, Tid: 1})
		}
	}
	return ops
}

func viol(sig, what string) *core.Violation {
	return &core.Violation{Signature: "C02/" + sig, What: what}
}

type srcPkt struct {
	buf   []byte
	sid   int
	end   bool
	descr string
}

// build the packets of one source frame
func (w *world) frame(o op) []srcPkt {
	var pk []srcPkt
	pidMask := uint16(0x7F)
	if w.sh.M {
		pidMask = 0x7FFF
	}
	pid := (w.cfg.PidStart + uint16(w.frames)) & pidMask
	ts := 1000 + uint32(w.frames)*3000
	hdr := func(marker bool, pt uint8) media.Hdr {
		h := media.Hdr{Seq: w.seq, TS: ts, Marker: marker, PT: pt, SSRC: fwd.UpSSRC, CSRC: w.cfg.CSRC, Ext: w.cfg.Ext}
		w.seq++
		return h
	}
	body := func(i int) []byte {
		return []byte{byte(w.frames), byte(i), 0xA5, byte(w.frames*7 + i), 0x5A}
	}
	switch w.sh.Codec {
	case "vp8":
		for i := 0; i < o.N; i++ {
			p := media.VP8{Hdr: hdr(i == o.N-1, 96), X: w.sh.X, I: w.sh.I, M: w.sh.M, L: w.sh.L, T: w.sh.T, K: w.sh.K,
				PictureID: pid, TL0: uint8(w.frames), TID: uint8(o.Tid), KeyIdx: 3, S: i == 0, Keyframe: w.frames == 0 && i == 0, Body: body(i)}
			if w.sh.Parts {
				p.S, p.PartID, p.Y = true, uint8(i), o.Tid > 0
			}
			pk = append(pk, srcPkt{buf: p.Bytes(), end: i == o.N-1, descr: fmt.Sprintf("frame %d packet %d", w.frames, i)})
		}
	case "vp9":
		// a superframe: spatial layer 0 then spatial layer 1, each o.N packets;
		// the RTP marker is only on the very last packet
		for sid := 0; sid <= 1; sid++ {
			for i := 0; i < o.N; i++ {
				last := sid == 1 && i == o.N-1
				p := media.VP9{Hdr: hdr(last, 98), I: w.sh.I, M: w.sh.M, L: true, F: w.sh.Flex,
					P: (w.frames > 0 || w.cfg.Mid) && !(w.cfg.Mid && sid == 1), PDiff: []uint8{1},
					B: i == 0, E: i == o.N-1, PictureID: pid, TID: uint8(o.Tid), SID: uint8(sid), D: sid == 1,
					TL0: uint8(w.frames), Keyframe: w.frames == 0 && !w.cfg.Mid, Body: body(i + 10*sid)}
				pk = append(pk, srcPkt{buf: p.Bytes(), sid: sid, end: i == o.N-1, descr: fmt.Sprintf("frame %d sid %d packet %d", w.frames, sid, i)})
			}
		}
	default:
		pt := uint8(111)
		if w.sh.Codec == "h264" {
			pt = 102
		}
		for i := 0; i < o.N; i++ {
			p := media.Opaque{Hdr: hdr(i == o.N-1, pt), Body: append([]byte{0x61}, body(i)...)}
			pk = append(pk, srcPkt{buf: p.Bytes(), end: i == o.N-1, descr: fmt.Sprintf("frame %d packet %d", w.frames, i)})
		}
	}
	return pk
}

func (w *world) Apply(x seqx.Op) *core.Violation {
	o := x.(op)
	if o.N < 0 {
		for i := 0; i < -o.N; i++ {
			if v := w.Apply(op{N: 1, Tid: 0}); v != nil {
				v.What = fmt.Sprintf("after %d rounds of (1 packet forwarded, 4 withheld): %s", i, v.What)
				v.Signature += "/after-65536-withheld-packets"
				return v
			}
			if v := w.Apply(op{N: 4, Tid: 1}); v != nil {
				return v
			}
		}
		w.hist = w.hist[:0]
		return nil
	}
	if o.N == 0 {
		if o.Tid >= len(w.sent) {
			return nil
		}
		e := w.sent[len(w.sent)-1-o.Tid]
		w.hist = append(w.hist, o)
		orig := append([]byte(nil), e[0]...)
		w.w.Rec.Take()
		_, err := w.w.Down.Write(e[0])
		out := w.w.Rec.Take()
		if err != nil {
			return viol("write-error/"+w.sh.Name, "retransmission: Write failed: "+err.Error())
		}
		if !bytes.Equal(orig, e[0]) {
			return viol("source-buffer-modified/"+w.sh.Name, "retransmission: Write modified the caller's (cached) buffer")
		}
		w.outcome = fmt.Sprintf("resend/%d", len(out))
		if len(out) == 1 && !bytes.Equal(out[0].Payload, e[1]) {
			kind := "payload-changed"
			if d := firstDiff(out[0].Payload, e[1]); w.sh.Codec == "vp8" && w.sh.I && d >= 2 && d <= 3 {
				kind = "picture-id-wrong"
			}
			return viol(kind+"/"+w.sh.Name+"/retransmission", "a packet written again (as gotNACK does for a retransmission) left with a different payload than the first time")
		}
		return nil
	}
	w.hist = append(w.hist, o)
	if o.Jump {
		w.seq += 10000
		w.jumped = true
		w.withheld = 0
		w.sent = nil
	}
	pkts := w.frame(o)
	codec := codecOf(w.sh).MimeType
	forwardedAny, withheldAny := false, false
	var framePid = -1
	// picture-level marker rule: a marker the server set must sit on the
	// last packet of the picture that this receiver is sent
	forcedAt, lastFwd := -1, -1
	var forcedDescr string
	for pi, sp := range pkts {
		if o.Raise && pi == 1 {
			l := w.w.Down.Layer()
			l.WantedTid = 1
			w.w.Down.SetLayer(l)
			w.raised = true
		}
		orig := append([]byte(nil), sp.buf...)
		w.w.Rec.Take()
		_, err := w.w.Down.Write(sp.buf)
		out := w.w.Rec.Take()
		if err != nil {
			return viol("write-error/"+w.sh.Name, fmt.Sprintf("%s: Write failed: %v", sp.descr, err))
		}
		if !bytes.Equal(orig, sp.buf) {
			return viol("source-buffer-modified/"+w.sh.Name, sp.descr+": Write modified the caller's (cached) buffer")
		}
		if len(out) > 1 {
			return viol("multiple-writes", sp.descr+": more than one packet written")
		}
		var in rtp.Packet
		if err := in.Unmarshal(orig); err != nil {
			panic("harness built an unparsable packet: " + err.Error())
		}
		// must this packet be withheld?  (layer pinned: tid 0; vp9: the
		// spatial layer selected once this packet has been handled -- cfg.Sid
		// unless a pending switch has just completed)
		curSid := w.cfg.Sid
		if w.sh.Codec == "vp9" {
			curSid = int(w.w.Down.Layer().Sid)
			if !w.cfg.Pending && curSid != w.cfg.Sid {
				return viol("layer-moved/"+w.sh.Name, sp.descr+": the pinned spatial layer changed")
			}
		}
		curTid := 0
		if w.raised {
			curTid = int(w.w.Down.Layer().Tid)
		}
		above := o.Tid > curTid || sp.sid > curSid
		if len(out) == 0 {
			if !above {
				return viol("not-forwarded/"+w.sh.Name, sp.descr+": in-order packet at or below the selected layers was not forwarded")
			}
			withheldAny = true
			continue
		}
		forwardedAny = true
		lastFwd = pi
		if out[0].Header.Marker && !in.Marker && forcedAt < 0 {
			forcedAt, forcedDescr = pi, sp.descr
		}
		if above {
			// C04's business; here it only means the frame is not withheld
		}
		got := out[0]
		// --- header
		if got.Header.Timestamp != in.Timestamp {
			return viol("timestamp-changed/"+w.sh.Name, sp.descr+": timestamp changed")
		}
		if fmt.Sprint(got.Header.CSRC) != fmt.Sprint(in.CSRC) {
			return viol("csrc-changed/"+w.sh.Name, fmt.Sprintf("%s: CSRC list changed from %v to %v", sp.descr, in.CSRC, got.Header.CSRC))
		}
		if in.Marker && !got.Header.Marker {
			return viol("marker-cleared/"+w.sh.Name, sp.descr+": marker bit was cleared")
		}
		if got.Header.Marker && !in.Marker {
			// may only be set on the last packet of a frame of the highest
			// forwarded spatial layer
			if !(w.sh.Codec == "vp9" && sp.end && sp.sid == curSid) {
				return viol("marker-set-illegally/"+w.sh.Name, fmt.Sprintf("%s: marker set on a packet that does not end a frame of the highest forwarded spatial layer (sid %d is selected)", sp.descr, curSid))
			}
		}
		if w.sh.Codec == "vp9" && sp.end && sp.sid == curSid && !got.Header.Marker {
			// not demanded by the property ("only ever set"), so no violation
		}
		if got.Header.Extension != in.Extension || len(got.Header.Extensions) != len(in.Extensions) {
			return viol("extension-changed/"+w.sh.Name, sp.descr+": header extension changed by Write")
		}
		// --- length
		if got.Header.MarshalSize()+len(got.Payload) != len(orig) {
			return viol("length-changed/"+w.sh.Name, fmt.Sprintf("%s: length changed from %d to %d", sp.descr, len(orig), got.Header.MarshalSize()+len(got.Payload)))
		}
		// --- payload
		want := append([]byte(nil), in.Payload...)
		if w.sh.Codec == "vp8" && w.sh.X && w.sh.I {
			var v pcodecs.VP8Packet
			if _, err := v.Unmarshal(in.Payload); err != nil {
				panic("harness built an unparsable VP8 payload: " + err.Error())
			}
			if w.sh.M {
				e := (v.PictureID - uint16(w.withheld)) & 0x7FFF
				want[2] = 0x80 | byte(e>>8)
				want[3] = byte(e)
				framePidCheck(&framePid, int(e))
			} else {
				e := (v.PictureID - uint16(w.withheld)) & 0x7F
				want[2] = byte(e)
				framePidCheck(&framePid, int(e))
			}
		}
		if !bytes.Equal(got.Payload, want) {
			// describe the difference
			var v2 pcodecs.VP8Packet
			d := firstDiff(got.Payload, want)
			extra := ""
			if w.sh.Codec == "vp8" {
				if _, err := v2.Unmarshal(got.Payload); err == nil {
					var v1 pcodecs.VP8Packet
					v1.Unmarshal(in.Payload)
					extra = fmt.Sprintf(" (source picture id %d, forwarded %d, %d frames withheld before it)", v1.PictureID, v2.PictureID, w.withheld)
				}
			}
			kind := "payload-changed"
			if w.sh.Codec == "vp8" && w.sh.I && d >= 2 && d <= 3 {
				kind = "picture-id-wrong"
			}
			return viol(kind+"/"+w.sh.Name, fmt.Sprintf("%s: payload byte %d differs from the expected rewrite%s", sp.descr, d, extra))
		}
		w.sent = append(w.sent, [2][]byte{sp.buf, append([]byte(nil), got.Payload...)})
		if len(w.sent) > 2 {
			w.sent = w.sent[1:]
		}
		// the parser galene uses must agree with the packet being the same frame
		if _, err := gcodecs.PacketFlags(codec, orig); err != nil {
			panic("galene cannot parse the harness packet: " + err.Error())
		}
	}
	if forcedAt >= 0 && forcedAt != lastFwd {
		return viol("marker-set-illegally/"+w.sh.Name, fmt.Sprintf("%s: the server set the marker on this packet, and then forwarded %d more packet(s) of the same picture (up to %s): the marker is not on the last packet of a frame of the highest forwarded spatial layer", forcedDescr, lastFwd-forcedAt, pkts[lastFwd].descr))
	}
	if withheldAny && !forwardedAny {
		w.withheld++
	}
	w.frames++
	w.outcome = fmt.Sprintf("%v/%v", forwardedAny, withheldAny)
	return nil
}

func framePidCheck(cur *int, pid int) {
	// all packets of a frame get the same expected id by construction; the
	// comparison with the output is done on the payload bytes
	*cur = pid
}

func firstDiff(a, b []byte) int {
	for i := 0; i < len(a) && i < len(b); i++ {
		if a[i] != b[i] {
			return i
		}
	}
	return min(len(a), len(b))
}

func (w *world) Canon() string {
	var b strings.Builder
	b.WriteString(w.w.Down.MapState())
	fmt.Fprintf(&b, "#%d/%d/%d/%d", w.frames, w.withheld, w.seq, len(w.sent))
	if w.raised {
		fmt.Fprintf(&b, "#L%v", w.w.Down.Layer())
	}
	if w.jumped {
		b.WriteString("#J")
	}
	return b.String()
}

func (w *world) Outcome() string { return w.outcome }

func configs() []config {
	var cs []config
	pids := core.Pick([]uint16{0, 126, 127, 32766, 32767}, []uint16{0, 1, 126, 127, 128, 32766, 32767})
	seqs := core.Pick([]uint16{65534}, []uint16{0, 65534, 57344})
	for si, sh := range shapes {
		for _, csrc := range []int{0, 1, 2} {
			for _, ext := range []bool{false, true} {
				switch sh.Codec {
				case "vp8":
					ps := pids
					if !sh.I {
						ps = []uint16{0}
					}
					for _, p := range ps {
						for _, s := range seqs {
							cs = append(cs, config{Shape: si, CSRC: csrc, Ext: ext, PidStart: p, Seq: s})
						}
					}
				case "vp9":
					for _, sid := range []int{0, 1} {
						cs = append(cs, config{Shape: si, CSRC: csrc, Ext: ext, PidStart: 126, Seq: seqs[0], Sid: sid})
						if csrc == 0 || !core.Quick() {
							cs = append(cs, config{Shape: si, CSRC: csrc, Ext: ext, PidStart: 126, Seq: seqs[0], Sid: sid, Pending: true})
							cs = append(cs, config{Shape: si, CSRC: csrc, Ext: ext, PidStart: 126, Seq: seqs[0], Sid: sid, Pending: true, Mid: true})
						}
					}
				default:
					cs = append(cs, config{Shape: si, CSRC: csrc, Ext: ext, Seq: seqs[0]})
				}
			}
		}
	}
	return cs
}

func cfgFor(c config) seqx.Config {
	return seqx.Config{Name: c.String(), Fresh: fresh(c), MaxDepth: core.Pick(5, 7), Parallel: 1}
}

func main() {
	t0 := time.Now()
	o := core.ParseFlags(90, 1200)
	res := &core.Result{Property: "C02", Tier: o.Tier,
		Technique: "explicit-state BFS over whole-frame arrival/withhold histories through the real rtpDownTrack.Write for every descriptor-shape configuration; output compared with the source packet using pion's independent parsers; preemption-bounded schedule enumeration of concurrent rewriting Writes on down tracks sharing the buffer pool"}
	if o.Replay != "" {
		replay(o.Replay)
		return
	}
	if o.Shard < 0 {
		core.RunShards(res, core.NCPU(), nil, nil)
		res.Assume("layer state pinned (tid=0, vp9 sid per configuration) so a frame is withheld exactly when its TID is 1 (or its SID is above the selection); arrival is in order, as the property's quantifier states")
		core.Finish(res, t0)
	}
	agg := core.Sub{Name: "write-vs-source", Exhaustive: true, Bound: fmt.Sprintf("operations (frames and retransmissions)<=%d x %d configurations", core.Pick(5, 7), len(configs()))}
	var outc core.Outcomes
	for i, c := range configs() {
		if i%o.Shards != o.Shard || !core.Want("write-vs-source") {
			continue
		}
		s := seqx.Explore(cfgFor(c), res)
		agg.States += s.States
		agg.Transitions += s.Transitions
		agg.Executions += s.Executions
		agg.Exhaustive = agg.Exhaustive && s.Exhaustive
		if s.Outcomes > agg.Outcomes {
			agg.Outcomes = s.Outcomes
		}
		if len(agg.Samples) < 2 {
			agg.Samples = append(agg.Samples, map[string]any{"config": c.String(), "histories": s.Samples})
		}
		outc.Add(c.String())
	}
	if core.Want("write-vs-source") {
		res.AddSub(agg)
	}
	if core.Want("conc") {
		runConcurrent(res, o.Shard, o.Shards)
	}
	core.Finish(res, t0)
}

func replay(path string) {
	data, err := os.ReadFile(path)
	if err != nil {
		fmt.Println(err)
		os.Exit(2)
	}
	var a struct {
		Replay struct {
			Config  string `json:"config"`
			Ops     []op   `json:"ops"`
			Program string `json:"program"`
			Choices []int  `json:"choices"`
		} `json:"replay"`
	}
	if err := json.Unmarshal(data, &a); err != nil {
		fmt.Println(err)
		os.Exit(2)
	}
	if a.Replay.Program != "" {
		fwd.Init()
		for _, p := range concPrograms() {
			if p.Name == a.Replay.Program {
				_, out, v := vrt.ReplayChoices(p, a.Replay.Choices)
				if v != nil {
					fmt.Printf("VIOLATION property=C02 replay=%s\n  signature: %s\n  %s\n", path, v.Signature, v.What)
					os.Exit(1)
				}
				fmt.Println("replay: no violation; outcome", out)
				return
			}
		}
		fmt.Println("unknown program")
		os.Exit(2)
	}
	for _, c := range configs() {
		if c.String() == a.Replay.Config {
			ops := make([]seqx.Op, len(a.Replay.Ops))
			for i, x := range a.Replay.Ops {
				ops[i] = x
			}
			if v := seqx.Replay(cfgFor(c), ops); v != nil {
				fmt.Printf("VIOLATION property=C02 replay=%s\n  %s\n", path, v.What)
				os.Exit(1)
			}
			fmt.Println("replay: no violation")
			return
		}
	}
	fmt.Println("unknown config (tier mismatch?)", a.Replay.Config)
	os.Exit(2)
}

// C07 — subscribers are offered exactly what they requested; teardown
// reaches everyone.
//
// Engine D with real PeerConnections: BFS over join / request /
// requestStream / offer / replace / track / close / abort / answer / leave /
// kick / unpresent by one publisher and two subscribers in one or two groups,
// with the delayed pushes as explicit task transitions.  Every offer and
// close written to a subscriber is checked when it is written; at quiescence
// each subscriber's downstreams (and the publisher tracks they forward) are
// compared with the reference selection computed from its request and the
// publisher's current tracks.
package main

import (
	"context"
	"encoding/json"
	"fmt"
	"github.com/jech/galene/group"
	"github.com/jech/galene/rtpconn"
	"os"
	"sort"
	"strings"
	"time"

	"github.com/pion/sdp/v3"
	"github.com/pion/webrtc/v4"

	"verif/core"
	"verif/fwd"
	"verif/seqx"
	"verif/sig"
)

const groupG = `{"users":{"alice":{"password":"p","permissions":"op"},"bob":{"password":"p","permissions":"present"},"carol":{"password":"p","permissions":"present"}}}`

var users = []string{"bob", "carol", "alice"} // c0 publisher, c1 subscriber, c2 operator/subscriber

var requests = map[string]map[string][]string{
	"none": {},
	"all":  {"": {"audio", "video"}},
	"camA": {"camera": {"audio"}},
	"low":  {"": {"video-low"}},
	// both qualities asked for: the full one wins
	"both":   {"": {"audio", "video", "video-low"}},
	"screen": {"screenshare": {"video"}},
	// everything except screenshares: an explicit empty list for a label must
	// not fall back to the default
	"noscreen": {"": {"audio", "video"}, "screenshare": {}},
	"nocam":    {"": {"audio"}, "camera": {}},
}

type op struct {
	C    int    `json:"c"`
	Kind string `json:"k"`
	Arg  string `json:"a,omitempty"`
	Arg2 string `json:"b,omitempty"`
	N    int    `json:"n,omitempty"`
}

type track struct {
	id, kind string
}

type stream struct {
	id, label string
	tracks    []track
	alive     bool
}

var trackList = []struct {
	id, rid string
	kind    webrtc.RTPCodecType
}{
	{"audio0", "", webrtc.RTPCodecTypeAudio},
	{"video0", "h", webrtc.RTPCodecTypeVideo},
	{"video0", "l", webrtc.RTPCodecTypeVideo},
}

type sub struct {
	group    string
	request  string            // name in requests, "" = never requested
	override map[string]string // per-stream requestStream override ("audio")
	offered  map[string]bool   // offered and not yet closed
	aborted  map[string]bool
}

type world struct {
	w       *sig.World
	pubIn   string // group of the publisher
	present bool
	streams map[string]*stream
	subs    map[int]*sub
	pcs     map[string]*webrtc.PeerConnection // client-side PCs for answers
	alpha   string
	outcome string
	nmsg    int
	// the publisher as offers name it (a web client, or a WHIP session)
	pubID, pubUser string
	whip           *rtpconn.WhipClient
}

func fresh(alpha string) func() seqx.World {
	return func() seqx.World {
		w := &world{w: sig.NewWorld(map[string]string{"g": groupG, "h": groupG}, 3),
			streams: map[string]*stream{}, subs: map[int]*sub{}, pcs: map[string]*webrtc.PeerConnection{}, alpha: alpha,
			pubID: "c0", pubUser: "bob"}
		if alpha == "whip" {
			w.pubID = whipID
		}
		return w
	}
}

const whipID = "whip-session-1"

func (w *world) Close() {
	for _, pc := range w.pcs {
		pc.Close()
	}
	if w.whip != nil {
		w.whip.Close()
	}
	w.w.Close()
}

func (w *world) Ops() []seqx.Op {
	var ops []seqx.Op
	full := w.alpha == "full"
	// publisher
	if w.alpha == "whip" {
		// a WHIP session publishes (one stream, named after the session, no label)
		switch s := w.streams[whipID]; {
		case s == nil:
			ops = append(ops, op{C: -1, Kind: "whip-publish"})
		case s.alive:
			if len(s.tracks) < 2 {
				ops = append(ops, op{C: -1, Kind: "whip-track"})
			}
			ops = append(ops, op{C: -1, Kind: "whip-close"})
		}
	} else if !w.w.Clients[0].V.Closed {
		if w.pubIn == "" {
			ops = append(ops, op{C: 0, Kind: "join", Arg: "g"})
		} else {
			if w.streams["s1"] == nil {
				ops = append(ops, op{C: 0, Kind: "offer", Arg: "s1", Arg2: "camera"})
			}
			if w.streams["s2"] == nil && full {
				ops = append(ops, op{C: 0, Kind: "offer", Arg: "s2", Arg2: "screenshare"})
			}
			if s := w.streams["s1"]; s != nil && s.alive && w.streams["s3"] == nil {
				ops = append(ops, op{C: 0, Kind: "replace", Arg: "s3", Arg2: "s1"})
			}
			// a second replacement, possibly before the first one's delayed push has run
			if s := w.streams["s3"]; s != nil && s.alive && w.streams["s4"] == nil {
				ops = append(ops, op{C: 0, Kind: "replace", Arg: "s4", Arg2: "s3"})
			}
			for _, id := range []string{"s1", "s2", "s3", "s4"} {
				if s := w.streams[id]; s != nil && s.alive {
					if len(s.tracks) < len(trackList) {
						ops = append(ops, op{C: 0, Kind: "track", Arg: id})
					}
					ops = append(ops, op{C: 0, Kind: "close", Arg: id})
				}
			}
			ops = append(ops, op{C: 0, Kind: "leave"})
		}
	}
	// subscribers
	for _, i := range []int{1, 2} {
		if w.w.Clients[i].V.Closed {
			continue
		}
		sb := w.subs[i]
		if sb == nil {
			ops = append(ops, op{C: i, Kind: "join", Arg: "g"})
			if i == 2 {
				ops = append(ops, op{C: i, Kind: "join", Arg: "h"})
			}
			continue
		}
		rs := []string{"all", "camA", "low", "nocam", "both"}
		if full {
			rs = []string{"all", "camA", "low", "screen", "none", "noscreen", "nocam", "both"}
		}
		for _, r := range rs {
			if r != sb.request {
				ops = append(ops, op{C: i, Kind: "request", Arg: r})
			}
		}
		for _, d := range w.w.Clients[i].V.Downs() {
			ops = append(ops, op{C: i, Kind: "abort", Arg: d.ID})
			if full {
				ops = append(ops, op{C: i, Kind: "requestStream", Arg: d.ID})
			}
			// an explicitly empty per-stream request: the subscriber gives the
			// stream up and the server closes it.  Only offered while no
			// delayed push is pending: a stream obtained through a request
			// while its replacement is still to be announced is looked up
			// under the replaced id, and what then happens to an empty
			// request depends on which push comes first (see DESIGN 6.5).
			if st := w.streams[d.ID]; st != nil && st.alive && len(w.w.Tasks()) == 0 && (full || i == 1) {
				ops = append(ops, op{C: i, Kind: "requestStream", Arg: d.ID, Arg2: "none"})
			}
			if d.State == "have-local-offer" {
				ops = append(ops, op{C: i, Kind: "answer", Arg: d.ID})
			}
		}
		if i == 2 && sb.group == "g" && w.pubIn == "g" && w.alpha != "whip" {
			ops = append(ops, op{C: 2, Kind: "kick"}, op{C: 2, Kind: "unpresent"})
		}
		if full {
			ops = append(ops, op{C: i, Kind: "leave"})
			if i == 2 && sb.group == "g" {
				ops = append(ops, op{C: 2, Kind: "switch", Arg: "h"})
			}
		}
	}
	for k := range w.w.Tasks() {
		if k < 2 {
			ops = append(ops, op{C: -1, Kind: "task", N: k})
		}
	}
	return ops
}

var clientPCFailures int

var clientAPI = func() *webrtc.API {
	var se webrtc.SettingEngine
	// no local interfaces: candidate gathering completes at once
	se.SetInterfaceFilter(func(string) bool { return false })
	se.SetIncludeLoopbackCandidate(false)
	return webrtc.NewAPI(webrtc.WithSettingEngine(se))
}()

func newClientPC() *webrtc.PeerConnection {
	pc, err := clientAPI.NewPeerConnection(webrtc.Configuration{})
	if err != nil {
		panic(err)
	}
	return pc
}

func viol(sig, what string) *core.Violation {
	return &core.Violation{Signature: "C07/" + sig, What: what}
}

// expected computes the reference selection for subscriber sb and stream s.
func expected(sb *sub, s *stream) []string {
	var req []string
	if o, ok := sb.override[s.id]; ok {
		req = []string{o}
	} else {
		r, ok := requests[sb.request][s.label]
		if !ok {
			r = requests[sb.request][""]
		}
		req = r
	}
	var audio, video, low bool
	for _, x := range req {
		switch x {
		case "audio":
			audio = true
		case "video":
			video = true
		case "video-low":
			low = true
		}
	}
	var out []string
	if audio {
		for _, t := range s.tracks {
			if t.kind == "audio" {
				out = append(out, t.id)
				break
			}
		}
	}
	if video {
		for _, t := range s.tracks {
			if t.kind == "video" {
				out = append(out, t.id)
				break
			}
		}
	} else if low {
		last := ""
		for _, t := range s.tracks {
			if t.kind == "video" {
				last = t.id
			}
		}
		if last != "" {
			out = append(out, last)
		}
	}
	return out
}

func requestedKinds(sb *sub, s *stream) map[string]bool {
	m := map[string]bool{}
	var req []string
	if o, ok := sb.override[s.id]; ok {
		req = []string{o}
	} else {
		r, ok := requests[sb.request][s.label]
		if !ok {
			r = requests[sb.request][""]
		}
		req = r
	}
	for _, x := range req {
		if x == "audio" {
			m["audio"] = true
		} else {
			m["video"] = true
		}
	}
	return m
}

func sdpKinds(s string) []string {
	var d sdp.SessionDescription
	if err := d.Unmarshal([]byte(s)); err != nil {
		return []string{"unparsable"}
	}
	var k []string
	for _, m := range d.MediaDescriptions {
		active := false
		for _, a := range m.Attributes {
			if a.Key == "sendonly" || a.Key == "sendrecv" {
				active = true
			}
		}
		if active && m.MediaName.Port.Value != 0 {
			k = append(k, m.MediaName.Media)
		}
	}
	sort.Strings(k)
	return k
}

func str(v any) string { s, _ := v.(string); return s }

// offers of already-replaced streams seen (not judged, see observe)
var staleOffers int

// observe checks every offer/close written by a transition.
func (w *world) observe(all [][]sig.Msg, actor int, kind string) *core.Violation {
	for k, ms := range all {
		for _, m := range ms {
			switch m["type"] {
			case "offer":
				sb := w.subs[k]
				id := str(m["id"])
				if sb == nil {
					return viol("offer-to-non-member", fmt.Sprintf("c%d has not joined and was offered stream %s", k, id))
				}
				if sb.group != w.pubIn && !(w.pubIn == "" && sb.group == "g") {
					return viol("offer-across-groups", fmt.Sprintf("c%d (group %s) was offered stream %s of a publisher in group %q", k, sb.group, id, w.pubIn))
				}
				s := w.streams[id]
				if s == nil {
					return viol("offer-unknown-stream", fmt.Sprintf("c%d was offered a stream %s that was never published", k, id))
				}
				if str(m["source"]) != w.pubID || str(m["username"]) != w.pubUser {
					return viol("offer-wrong-origin", fmt.Sprintf("offer of %s to c%d names source %v / username %v; the publisher is %s / %s", id, k, m["source"], m["username"], w.pubID, w.pubUser))
				}
				if str(m["label"]) != s.label {
					return viol("offer-wrong-label", fmt.Sprintf("offer of %s carries label %v, the stream's label is %s", id, m["label"], s.label))
				}
				want := requestedKinds(sb, s)
				for _, mk := range sdpKinds(str(m["sdp"])) {
					// a replaced stream lives on at its subscribers until the
					// replacement is pushed (the delayed task): the publisher
					// no longer lists it, so a change of request cannot reach
					// it, and a renegotiation in that window (the
					// subscriber's answer) re-offers what it held.  It is
					// torn down by the replacement; the quiescence oracle
					// checks that.  Only offers of live streams are judged.
					if !s.alive {
						staleOffers++
						break
					}
					if !want[mk] {
						return viol("offer-unrequested-kind", fmt.Sprintf("offer of %s (label %s) to c%d contains %s, which its request %q does not name for that label", id, s.label, k, mk, sb.request))
					}
				}
				sb.offered[id] = true
				delete(sb.aborted, id)
				// an offer that names a stream in its replace field tells the
				// receiver to close that stream (galene-protocol.md): it is
				// the teardown notification of the replaced stream
				if r := str(m["replace"]); r != "" {
					if old := w.streams[r]; old != nil && old.alive {
						return viol("replace-of-live-stream", fmt.Sprintf("offer of %s to c%d replaces %s, which is still alive", id, k, r))
					}
					delete(sb.offered, r)
				}
			case "close":
				sb := w.subs[k]
				id := str(m["id"])
				if sb == nil {
					continue
				}
				s := w.streams[id]
				justified := s == nil || !s.alive || len(expected(sb, s)) == 0 || sb.aborted[id] || sb.group != w.pubIn
				if !justified {
					return viol("unjustified-close", fmt.Sprintf("c%d was sent close for %s although the stream is alive, requested (%v) and was not aborted (after %s by c%d)", k, id, expected(sb, s), kind, actor))
				}
				delete(sb.offered, id)
			}
		}
	}
	return nil
}

func (w *world) endStream(id string) {
	if s := w.streams[id]; s != nil {
		s.alive = false
	}
}

func (w *world) Apply(x seqx.Op) *core.Violation {
	o := x.(op)
	if o.Kind == "switch" {
		// the client moves to another group: leave, join, request
		for _, step := range []op{{C: o.C, Kind: "leave"}, {C: o.C, Kind: "join", Arg: o.Arg}, {C: o.C, Kind: "request", Arg: "all"}} {
			if v := w.Apply(step); v != nil {
				return v
			}
		}
		w.outcome = "switch"
		return nil
	}
	w.outcome = o.Kind
	w.nmsg++
	mustClose := "" // a stream the server has to close for o.C within this step
	var obs sig.Obs
	before := map[int]string{}
	for _, i := range []int{1, 2} {
		before[i] = fmt.Sprint(w.w.Clients[i].V.Downs())
	}
	user := ""
	if o.C >= 0 {
		user = users[o.C]
	}
	switch o.Kind {
	case "whip-publish":
		// what POST /group/g/.whip does after checking the credentials
		var fault string
		w.streams[whipID] = &stream{id: whipID, label: "", alive: true}
		w.pubIn, w.present = "g", true
		obs = w.w.Do(func() {
			g, err := group.Add("g", nil)
			if err != nil {
				fault = err.Error()
				return
			}
			wc := rtpconn.NewWhipClient(g, whipID, "", nil)
			u := "bob"
			if _, err := group.AddClient("g", wc, group.ClientCredentials{Username: &u, Password: "p"}); err != nil {
				fault = "WHIP join refused: " + err.Error()
				return
			}
			w.whip = wc
			ctx, cancel := context.WithTimeout(context.Background(), 5*time.Second)
			defer cancel()
			if _, err := wc.NewConnection(ctx, []byte(sig.OfferSDP("av"))); err != nil {
				// the session's PeerConnection waits for pion's candidate
				// gathering (real time): a failure there is the
				// environment's, never a verdict -- the session goes away
				clientPCFailures++
				wc.Close()
				w.whip = nil
				w.endStream(whipID)
				w.pubIn = ""
			}
		})
		if fault != "" {
			return &core.Violation{Signature: "HARNESS-FAULT", What: fault}
		}
	case "whip-track":
		if w.whip == nil {
			return nil
		}
		s := w.streams[whipID]
		t := trackList[len(s.tracks)]
		codec := fwd.Opus
		if t.kind == webrtc.RTPCodecTypeVideo {
			codec = fwd.VP8
		}
		obs = w.w.Do(func() { rtpconn.VerifWhipTrack(w.whip, t.kind, t.id, "", codec) })
		s.tracks = append(s.tracks, track{t.id, t.kind.String()})
	case "whip-close":
		if w.whip == nil {
			return nil
		}
		w.endStream(whipID)
		w.pubIn = ""
		obs = w.w.Do(func() { w.whip.Close() })
	case "task":
		if o.N >= len(w.w.Tasks()) {
			return nil
		}
		obs = w.w.RunTask(o.N)
	case "join":
		obs = w.w.Send(o.C, sig.Join(o.Arg, user, "p"))
		if o.C == 0 {
			w.pubIn, w.present = o.Arg, true
		} else {
			w.subs[o.C] = &sub{group: o.Arg, override: map[string]string{}, offered: map[string]bool{}, aborted: map[string]bool{}}
		}
	case "leave":
		g := "g"
		if o.C != 0 && w.subs[o.C] != nil {
			g = w.subs[o.C].group
		}
		obs = w.w.Send(o.C, sig.Msg{"type": "join", "kind": "leave", "group": g})
		if o.C == 0 {
			w.pubIn = ""
			for id := range w.streams {
				w.endStream(id)
			}
		} else {
			delete(w.subs, o.C)
		}
	case "request":
		r := map[string]any{}
		for l, ks := range requests[o.Arg] {
			a := []any{}
			for _, k := range ks {
				a = append(a, k)
			}
			r[l] = a
		}
		w.subs[o.C].request = o.Arg
		obs = w.w.Send(o.C, sig.Msg{"type": "request", "request": r})
	case "requestStream":
		if o.Arg2 == "none" {
			// for the reference: like abort (nothing of the stream until it
			// is offered again), except that the server has to say close
			w.subs[o.C].aborted[o.Arg] = true
			delete(w.subs[o.C].override, o.Arg)
			mustClose = o.Arg
			obs = w.w.Send(o.C, sig.Msg{"type": "requestStream", "id": o.Arg, "request": []any{}})
			break
		}
		w.subs[o.C].override[o.Arg] = "audio"
		obs = w.w.Send(o.C, sig.Msg{"type": "requestStream", "id": o.Arg, "request": []any{"audio"}})
	case "offer":
		// a publisher that lost the right to present is refused
		w.streams[o.Arg] = &stream{id: o.Arg, label: o.Arg2, alive: w.present}
		obs = w.w.Send(0, sig.Msg{"type": "offer", "id": o.Arg, "label": o.Arg2, "source": "c0", "username": "bob", "sdp": sig.OfferSDP("av")})
	case "replace":
		old := w.streams[o.Arg2]
		w.streams[o.Arg] = &stream{id: o.Arg, label: old.label, alive: w.present}
		// the replacement takes over the per-stream request of the
		// connection it replaces
		for _, sb := range w.subs {
			if sb == nil {
				continue
			}
			if ov, ok := sb.override[o.Arg2]; ok && w.present {
				sb.override[o.Arg] = ov
			}
		}
		w.endStream(o.Arg2)
		obs = w.w.Send(0, sig.Msg{"type": "offer", "id": o.Arg, "label": old.label, "replace": o.Arg2, "source": "c0", "username": "bob", "sdp": sig.OfferSDP("av")})
	case "track":
		s := w.streams[o.Arg]
		t := trackList[len(s.tracks)]
		codec := fwd.Opus
		if t.kind == webrtc.RTPCodecTypeVideo {
			codec = fwd.VP8
		}
		var pan string
		func() {
			defer func() {
				if r := recover(); r != nil {
					pan = fmt.Sprint(r)
				}
			}()
			w.w.Clients[0].V.Track(o.Arg, t.kind, t.id, t.rid, codec)
		}()
		if pan != "" {
			return viol("panic/OnTrack", pan)
		}
		s.tracks = append(s.tracks, track{t.id + t.rid, t.kind.String()})
		obs = w.w.Send(0, sig.Msg{"type": "pong"})
	case "close":
		w.endStream(o.Arg)
		obs = w.w.Send(0, sig.Msg{"type": "close", "id": o.Arg, "source": "c0"})
	case "abort":
		w.subs[o.C].aborted[o.Arg] = true
		// a per-stream request lives on the down connection and goes with it
		delete(w.subs[o.C].override, o.Arg)
		obs = w.w.Send(o.C, sig.Msg{"type": "abort", "id": o.Arg})
	case "answer":
		sdpOffer := w.w.Clients[o.C].V.DownOffer(o.Arg)
		if sdpOffer == "" {
			return nil
		}
		key := fmt.Sprintf("%d/%s", o.C, o.Arg)
		pc := w.pcs[key]
		if pc == nil {
			pc = newClientPC()
			w.pcs[key] = pc
		}
		// Failures of the harness's own client-side PeerConnection are never
		// a verdict (pion's ICE agent runs in real time): the answer is
		// simply not sent.
		if err := pc.SetRemoteDescription(webrtc.SessionDescription{Type: webrtc.SDPTypeOffer, SDP: sdpOffer}); err != nil {
			clientPCFailures++
			return nil
		}
		ans, err := pc.CreateAnswer(nil)
		if err != nil {
			clientPCFailures++
			return nil
		}
		done := webrtc.GatheringCompletePromise(pc)
		if err := pc.SetLocalDescription(ans); err != nil {
			clientPCFailures++
			return nil
		}
		select {
		case <-done:
		case <-time.After(2 * time.Second):
		}
		// no candidates and no end-of-candidates: the server's ICE agent then
		// waits for trickled candidates (for longer than a world lives)
		// instead of failing at once from one of pion's own goroutines
		var lines []string
		for _, l := range strings.Split(pc.LocalDescription().SDP, "\r\n") {
			if strings.HasPrefix(l, "a=candidate") || strings.HasPrefix(l, "a=end-of-candidates") {
				continue
			}
			lines = append(lines, l)
		}
		obs = w.w.Send(o.C, sig.Msg{"type": "answer", "id": o.Arg, "sdp": strings.Join(lines, "\r\n")})
	case "kick":
		obs = w.w.Send(2, sig.Msg{"type": "useraction", "kind": "kick", "source": "c2", "username": "alice", "dest": "c0", "value": "out"})
		w.pubIn = ""
		for id := range w.streams {
			w.endStream(id)
		}
	case "unpresent":
		obs = w.w.Send(2, sig.Msg{"type": "useraction", "kind": "unpresent", "source": "c2", "username": "alice", "dest": "c0"})
		w.present = false
		for id := range w.streams {
			w.endStream(id)
		}
	}
	if obs.Panic != "" {
		return &core.Violation{Signature: "C07/panic/" + sig.PanicSite(obs.Panic), What: obs.Panic}
	}
	all := make([][]sig.Msg, len(w.w.Clients))
	for k := range all {
		if obs.New != nil {
			all[k] = append(all[k], obs.New[k]...)
		}
	}
	// drains (not tasks: the delayed pushes are explicit transitions)
	for n := 0; n < 200; n++ {
		s := w.w.Signalled()
		if len(s) == 0 {
			break
		}
		so := w.w.Drain(s[0])
		if so.Panic != "" {
			return &core.Violation{Signature: "C07/panic/" + sig.PanicSite(so.Panic), What: so.Panic}
		}
		for k := range so.New {
			all[k] = append(all[k], so.New[k]...)
		}
	}
	if v := w.observe(all, o.C, o.Kind); v != nil {
		return v
	}
	if mustClose != "" {
		closed := false
		for _, m := range all[o.C] {
			if m["type"] == "close" && str(m["id"]) == mustClose {
				closed = true
			}
		}
		if !closed {
			return viol("empty-stream-request-ignored", fmt.Sprintf("c%d asked for nothing of the live stream %s (requestStream with an empty list) while holding it, with no push pending, and was not sent a close for it", o.C, mustClose))
		}
	}
	// a subscriber's own abort or request change affects only itself
	if o.Kind == "abort" || o.Kind == "request" || o.Kind == "requestStream" || o.Kind == "answer" {
		other := 3 - o.C
		if after := fmt.Sprint(w.w.Clients[other].V.Downs()); after != before[other] {
			return viol("other-subscriber-affected", fmt.Sprintf("%s by c%d changed the downstreams of c%d from %s to %s", o.Kind, o.C, other, before[other], after))
		}
		for _, m := range all[other] {
			if m["type"] == "offer" || m["type"] == "close" {
				return viol("other-subscriber-affected", fmt.Sprintf("%s by c%d made the server send %v to c%d", o.Kind, o.C, m["type"], other))
			}
		}
	}
	if w.w.Quiescent() {
		if v := w.quiescence(); v != nil {
			return v
		}
		// a per-stream request lives on the down connection: once the
		// server holds none for that stream (and rightly so: the check above
		// passed), the next push falls back to the general request
		for _, i := range []int{1, 2} {
			sb := w.subs[i]
			if sb == nil {
				continue
			}
			held := map[string]bool{}
			for _, d := range w.w.Clients[i].V.Downs() {
				held[d.ID] = true
			}
			for id := range sb.override {
				if !held[id] {
					delete(sb.override, id)
				}
			}
		}
	}
	return nil
}

func (w *world) quiescence() *core.Violation {
	for _, i := range []int{1, 2} {
		sb := w.subs[i]
		c := w.w.Clients[i]
		if sb == nil || c.V.Closed {
			continue
		}
		have := map[string][]string{}
		for _, d := range c.V.Downs() {
			t := append([]string(nil), d.Tracks...)
			sort.Strings(t)
			have[d.ID] = t
		}
		for id, s := range w.streams {
			exp := []string{}
			if s.alive && sb.group == w.pubIn && sb.request != "" && !sb.aborted[id] {
				exp = expected(sb, s)
			}
			sort.Strings(exp)
			got, ok := have[id]
			switch {
			case len(exp) == 0 && ok:
				cls := "downstream-not-torn-down"
				if !s.alive {
					cls = "ended-stream-still-held"
				}
				return viol(cls, fmt.Sprintf("at quiescence c%d holds a downstream for %s (tracks %v) although the reference selection is empty (stream alive: %v, request %q)", i, id, got, s.alive, sb.request))
			case len(exp) > 0 && !ok:
				return viol("requested-stream-missing", fmt.Sprintf("at quiescence c%d (request %q) holds no downstream for the live stream %s (label %s, tracks %v); expected %v", i, sb.request, id, s.label, s.tracks, exp))
			case len(exp) > 0 && fmt.Sprint(got) != fmt.Sprint(exp):
				return viol("wrong-tracks-forwarded", fmt.Sprintf("at quiescence c%d (request %q) receives tracks %v of stream %s (label %s, tracks %v); expected %v", i, sb.request, got, id, s.label, s.tracks, exp))
			}
			if !s.alive && sb.offered[id] {
				return viol("no-close-for-ended-stream", fmt.Sprintf("at quiescence c%d, which had been offered %s, has not been sent close for it although the stream ended", i, id))
			}
		}
	}
	return nil
}

func (w *world) Canon() string {
	var b strings.Builder
	b.WriteString(w.w.Canon())
	fmt.Fprintf(&b, "\npub=%s", w.pubIn)
	ids := make([]string, 0, len(w.streams))
	for id := range w.streams {
		ids = append(ids, id)
	}
	sort.Strings(ids)
	for _, id := range ids {
		s := w.streams[id]
		fmt.Fprintf(&b, "|%s:%s:%v:%v", id, s.label, s.tracks, s.alive)
	}
	for _, i := range []int{1, 2} {
		if sb := w.subs[i]; sb != nil {
			fmt.Fprintf(&b, "|c%d:%s:%s:%v:%v:%v", i, sb.group, sb.request, sb.override, keys(sb.offered), keys(sb.aborted))
		}
	}
	return b.String()
}

func keys(m map[string]bool) []string {
	var k []string
	for x, v := range m {
		if v {
			k = append(k, x)
		}
	}
	sort.Strings(k)
	return k
}

func (w *world) Outcome() string { return w.outcome }

// presets are non-initial start states reached by fixed operation prefixes:
// a publisher with one fully published stream (audio + simulcast video) and
// subscribers with different requests, in one or two groups.
func presets() map[string][]seqx.Op {
	pub := []seqx.Op{
		op{C: 0, Kind: "join", Arg: "g"},
		op{C: 1, Kind: "join", Arg: "g"},
	}
	stream := []seqx.Op{
		op{C: 0, Kind: "offer", Arg: "s1", Arg2: "camera"},
		op{C: 0, Kind: "track", Arg: "s1"}, op{C: 0, Kind: "track", Arg: "s1"}, op{C: 0, Kind: "track", Arg: "s1"},
		op{C: -1, Kind: "task", N: 0}, op{C: -1, Kind: "task", N: 0}, op{C: -1, Kind: "task", N: 0}, op{C: -1, Kind: "task", N: 0},
	}
	cat := func(xs ...[]seqx.Op) []seqx.Op {
		var r []seqx.Op
		for _, x := range xs {
			r = append(r, x...)
		}
		return r
	}
	// the stream with its last (low-quality video) track still to come: the
	// track's arrival is a push of its own
	stream2 := []seqx.Op{
		op{C: 0, Kind: "offer", Arg: "s1", Arg2: "camera"},
		op{C: 0, Kind: "track", Arg: "s1"}, op{C: 0, Kind: "track", Arg: "s1"},
		op{C: -1, Kind: "task", N: 0}, op{C: -1, Kind: "task", N: 0}, op{C: -1, Kind: "task", N: 0},
	}
	// a second stream (screenshare, audio and video) next to the first
	second := []seqx.Op{
		op{C: 0, Kind: "offer", Arg: "s2", Arg2: "screenshare"},
		op{C: 0, Kind: "track", Arg: "s2"}, op{C: 0, Kind: "track", Arg: "s2"},
		op{C: -1, Kind: "task", N: 0}, op{C: -1, Kind: "task", N: 0}, op{C: -1, Kind: "task", N: 0},
	}
	return map[string][]seqx.Op{
		"empty":                      nil,
		"two-tracks-all-both":        cat(pub, []seqx.Op{op{C: 1, Kind: "request", Arg: "all"}, op{C: 2, Kind: "join", Arg: "g"}, op{C: 2, Kind: "request", Arg: "both"}}, stream2),
		"two-streams-all":            cat(pub, []seqx.Op{op{C: 1, Kind: "request", Arg: "all"}}, stream, second),
		"published-all-low":          cat(pub, []seqx.Op{op{C: 1, Kind: "request", Arg: "all"}, op{C: 2, Kind: "join", Arg: "g"}, op{C: 2, Kind: "request", Arg: "low"}}, stream),
		"published-camA-other-group": cat(pub, []seqx.Op{op{C: 1, Kind: "request", Arg: "camA"}, op{C: 2, Kind: "join", Arg: "h"}, op{C: 2, Kind: "request", Arg: "all"}}, stream),
		"published-then-request":     cat(pub, stream, []seqx.Op{op{C: 2, Kind: "join", Arg: "g"}}),
		// the publisher offered while alone (its delayed push is still
		// pending, with the member list of that moment), then a subscriber
		// joined and asked for everything; the tracks are yet to come
		// (alphabet "whip" only) a WHIP session publishing to two subscribers that asked for everything
		"whip-two-subscribers": {op{C: -1, Kind: "whip-publish"}, op{C: 1, Kind: "join", Arg: "g"}, op{C: 1, Kind: "request", Arg: "all"},
			op{C: 2, Kind: "join", Arg: "g"}, op{C: 2, Kind: "request", Arg: "all"}},
		"offered-alone-then-joined": {op{C: 0, Kind: "join", Arg: "g"}, op{C: 0, Kind: "offer", Arg: "s1", Arg2: "camera"},
			op{C: 1, Kind: "join", Arg: "g"}, op{C: 1, Kind: "request", Arg: "all"}},
	}
}

func cfg(alpha string) seqx.Config {
	d := core.Pick(6, 8)
	if alpha == "full" {
		d = core.Pick(5, 7)
	}
	return seqx.Config{Name: "subscriptions/" + alpha, Fresh: fresh(alpha), MaxDepth: d, Parallel: 1}
}

func main() {
	t0 := time.Now()
	o := core.ParseFlags(100, 1500)
	res := &core.Result{Property: "C07", Tier: o.Tier,
		Technique: "explicit-state BFS over signalling sequences with real PeerConnections through the real handleClientMessage/handleAction/pushConn/pushDownConn/requestedTracks/replaceTracks/negotiate; per-message and quiescence oracles against a reference selection"}
	defer sig.Cleanup()
	if o.Replay != "" {
		replay(o.Replay)
		return
	}
	if os.Getenv("C07_DETERMINISM") != "" {
		for pn, pre := range presets() {
			c := cfg("full")
			c.Prefix = pre
			if s := seqx.Determinism(c, 3, 3000); s != "" {
				fmt.Println("preset", pn, "diverges:", s)
				os.Exit(1)
			}
			fmt.Println("preset", pn, "deterministic")
		}
		return
	}
	if o.Shard < 0 {
		core.RunShards(res, core.NCPU(), nil, nil)
		res.Assume("tracks appear through the real OnTrack closure with synthetic remote tracks (no media flows); subscribers answer with a standard pion client; queues are drained after every message, delayed pushes fire at explicit later points")
		core.Finish(res, t0)
	}
	job := 0
	agg := map[string]*core.Sub{}
	for _, a := range []string{"small", "full", "whip"} {
		// NOTE: every shard must enumerate the jobs in the same order
		ps := presets()
		pnames := make([]string, 0, len(ps))
		for n := range ps {
			pnames = append(pnames, n)
		}
		sort.Strings(pnames)
		for _, pname := range pnames {
			pre := ps[pname]
			// quick: the full alphabet only from the empty state and from
			// the two-stream state (which only it can make use of)
			if a == "full" && pname != "empty" && pname != "two-streams-all" && core.Quick() {
				continue
			}
			if a == "small" && pname == "two-streams-all" {
				continue
			}
			if (a == "whip") != (pname == "whip-two-subscribers" || a == "whip" && pname == "empty") {
				continue
			}
			// shard by the first operation after the preset
			w := fresh(a)()
			for _, x := range pre {
				if v := w.Apply(x); v != nil {
					v.Replay = map[string]any{"config": "subscriptions/" + a, "ops": pre}
					res.Violate(*v)
				}
			}
			first := w.Ops()
			w.(*world).Close()
			for _, f := range first {
				job++
				if job%o.Shards != o.Shard {
					continue
				}
				c := cfg(a)
				c.Prefix = append(append([]seqx.Op{}, pre...), f)
				extra := core.Pick(4, 6)
				if pname == "empty" {
					extra = core.Pick(6, 8)
				}
				if a == "full" && pname == "two-streams-all" {
					extra = core.Pick(3, 5)
				}
				c.MaxDepth = len(pre) + extra
				s := seqx.Explore(c, res)
				if x := agg[a]; x == nil {
					s.Name = "subscriptions/" + a
					s.Bound = fmt.Sprintf("from the empty state (depth<=%d) and from %d preset states (depth<=%d beyond the preset; quick: the full alphabet only from the empty and the two-stream state, the latter to depth %d)", core.Pick(6, 8), len(presets())-1, core.Pick(4, 6), core.Pick(3, 5))
					agg[a] = &s
				} else {
					x.States += s.States
					x.Transitions += s.Transitions
					x.Executions += s.Executions
					x.Exhaustive = x.Exhaustive && s.Exhaustive
					if s.Outcomes > x.Outcomes {
						x.Outcomes = s.Outcomes
					}
				}
			}
		}
	}
	for _, a := range []string{"small", "full", "whip"} {
		if x := agg[a]; x != nil {
			res.AddSub(*x)
		}
	}
	sig.Cleanup()
	core.Finish(res, t0)
}

func replay(path string) {
	data, err := os.ReadFile(path)
	if err != nil {
		fmt.Println(err)
		os.Exit(2)
	}
	var a struct {
		Replay struct {
			Config string `json:"config"`
			Ops    []op   `json:"ops"`
		} `json:"replay"`
	}
	if err := json.Unmarshal(data, &a); err != nil {
		fmt.Println(err)
		os.Exit(2)
	}
	ops := make([]seqx.Op, len(a.Replay.Ops))
	for i, x := range a.Replay.Ops {
		ops[i] = x
	}
	v := seqx.Replay(cfg(strings.TrimPrefix(a.Replay.Config, "subscriptions/")), ops)
	sig.Cleanup()
	if v != nil {
		fmt.Printf("VIOLATION property=C07 replay=%s\n  %s\n", path, v.What)
		os.Exit(1)
	}
	fmt.Println("replay: no violation")
}

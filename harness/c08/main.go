// C08 — password login needs the right password and yields exactly the
// configured rights.
//
// Bounded exhaustive enumeration on the real galene code:
//
//	login-product   group descriptions (JSON files read by the real
//	                readDescription) x credentials through
//	                Description.GetPermission, against a small reference
//	                written from the property statement;
//	alias           the slice returned by a login is edited in place (as
//	                webclient's remove() does); later logins and the
//	                package-level role table must not change;
//	join-product    the same credentials through the real group.AddClient with
//	                harness clients: a refused client stays outside the group;
//	join-ws         the same through a real *webClient and handleClientMessage
//	                (joined{kind:join|fail});
//	history/*       BFS over sequences of op/unop/present/unpresent/shutup/
//	                unshutup applied to member sessions: a fresh login of
//	                every configured user still yields the reference rights;
//	tool-roundtrip  galenectl's makePassword x parameters x passwords, through
//	                the JSON form into group.Password.Match (separate binary,
//	                see exports/galenectl/c08_roundtrip.go).
package main

import (
	"crypto/sha256"
	"encoding/hex"
	"encoding/json"
	"fmt"
	"io"
	"log"
	"os"
	"path/filepath"
	"runtime/debug"
	"runtime/pprof"
	"sort"
	"strings"
	"sync"
	"time"

	"golang.org/x/crypto/bcrypt"
	"golang.org/x/crypto/pbkdf2"

	"github.com/jech/galene/group"

	"verif/core"
	"verif/vrt"
	"verif/vtime"
)

// ---------------------------------------------------------------------------
// Alphabet: password encodings and roles

const (
	semNever  = iota // never matches (no password, or a malformed record: an error is a refusal)
	semAlways        // wildcard
	semEquals        // matches exactly Plain
)

type pwKind struct {
	Name      string
	JSON      string // raw JSON of the "password" field; "" = field absent
	Sem       int
	Plain     string
	Malformed bool
	NoPass    bool // an entry with no password
}

// a fixed bcrypt(cost 4) record of "p1" (checked at start-up)
const bcryptP1 = "$2a$04$DFUWleBYMr36zDXYVipiYO1Ybfg7gwDJ9A05GUfOWSlaI0hvI9UFq"

var pwKinds []pwKind
var pwByName = map[string]*pwKind{}

func initPwKinds() {
	salt := []byte{0xbc, 0xc1, 0x71, 0x78}
	key := hex.EncodeToString(pbkdf2.Key([]byte("p1"), salt, 3, 16, sha256.New))
	pb := func(hash, key string) string {
		return fmt.Sprintf(`{"type":"pbkdf2","hash":%q,"key":%q,"salt":%q,"iterations":3}`,
			hash, key, hex.EncodeToString(salt))
	}
	pwKinds = []pwKind{
		{Name: "absent", JSON: "", Sem: semNever, NoPass: true},
		{Name: "empty-object", JSON: `{}`, Sem: semNever, NoPass: true},
		// JSON null is how "no value" is written (a nil pointer serialises to it)
		{Name: "null", JSON: `null`, Sem: semNever, NoPass: true},
		{Name: "plain-p1", JSON: `"p1"`, Sem: semEquals, Plain: "p1"},
		{Name: "plain-p2", JSON: `"p2"`, Sem: semEquals, Plain: "p2"},
		// a plain password with a two-byte character (the attempt list has a
		// string of the same length that differs in the second byte of it)
		{Name: "plain-utf8", JSON: `"caf\u00e9"`, Sem: semEquals, Plain: "caf\u00e9"},
		{Name: "wildcard", JSON: `{"type":"wildcard"}`, Sem: semAlways},
		{Name: "pbkdf2-p1", JSON: pb("sha-256", key), Sem: semEquals, Plain: "p1"},
		{Name: "bcrypt-p1", JSON: fmt.Sprintf(`{"type":"bcrypt","key":%q}`, bcryptP1), Sem: semEquals, Plain: "p1"},
		{Name: "plain-nokey", JSON: `{"type":"plain"}`, Sem: semNever, Malformed: true},
		{Name: "pbkdf2-badhex", JSON: pb("sha-256", "zz"+key[2:]), Sem: semNever, Malformed: true},
		{Name: "unknown-type", JSON: `{"type":"foo","key":"p1"}`, Sem: semNever, Malformed: true},
		{Name: "pbkdf2-md5", JSON: pb("md5", key), Sem: semNever, Malformed: true},
		{Name: "plain-object-p1", JSON: `{"type":"plain","key":"p1"}`, Sem: semEquals, Plain: "p1"},
	}
	for i := range pwKinds {
		pwByName[pwKinds[i].Name] = &pwKinds[i]
	}
	if err := bcrypt.CompareHashAndPassword([]byte(bcryptP1), []byte("p1")); err != nil {
		fmt.Println("HARNESS-FAULT property=C08: embedded bcrypt record does not verify p1:", err)
		os.Exit(3)
	}
}

type roleKind struct {
	Name  string
	JSON  string
	Named bool
	Perms []string // the role's permissions, from the property statement
}

// The role table of the statement (documented in galene's README): this is
// the reference, deliberately not read from the package under test.
var roleKinds = []roleKind{
	{"op", `"op"`, true, []string{"op", "present", "message", "caption", "token"}},
	{"present", `"present"`, true, []string{"present", "message"}},
	{"message", `"message"`, true, []string{"message"}},
	{"observe", `"observe"`, true, []string{}},
	{"caption", `"caption"`, true, []string{"caption"}},
	{"admin", `"admin"`, true, []string{"admin"}},
	{"raw-present-x", `["present","x"]`, false, []string{"present", "x"}},
	{"raw-empty", `[]`, false, []string{}},
}
var roleByName = map[string]*roleKind{}

// ---------------------------------------------------------------------------
// Description model (also the replay artefact) and its JSON file

type entry struct {
	Pw   string `json:"pw"`
	Role string `json:"role"`
}

type desc struct {
	Users    map[string]entry `json:"users"`
	Wildcard *entry           `json:"wildcard,omitempty"`
	Rec      bool             `json:"allow-recording"`
	Unr      bool             `json:"unrestricted-tokens"`
}

func (e entry) json() string {
	var parts []string
	if p := pwByName[e.Pw]; p.JSON != "" {
		parts = append(parts, `"password":`+p.JSON)
	}
	parts = append(parts, `"permissions":`+roleByName[e.Role].JSON)
	return "{" + strings.Join(parts, ",") + "}"
}

// JSON renders the group description file (deterministic).
func (d *desc) JSON() string {
	var parts []string
	if d.Users != nil {
		names := make([]string, 0, len(d.Users))
		for n := range d.Users {
			names = append(names, n)
		}
		sort.Strings(names)
		var us []string
		for _, n := range names {
			k, _ := json.Marshal(n)
			us = append(us, string(k)+":"+d.Users[n].json())
		}
		parts = append(parts, `"users":{`+strings.Join(us, ",")+`}`)
	}
	if d.Wildcard != nil {
		parts = append(parts, `"wildcard-user":`+d.Wildcard.json())
	}
	if d.Rec {
		parts = append(parts, `"allow-recording":true`)
	}
	if d.Unr {
		parts = append(parts, `"unrestricted-tokens":true`)
	}
	return "{" + strings.Join(parts, ",") + "}\n"
}

// ---------------------------------------------------------------------------
// Reference: the property statement, nothing else.

func refMatches(e entry, pw string) bool {
	k := pwByName[e.Pw]
	switch k.Sem {
	case semAlways:
		return true
	case semEquals:
		return pw == k.Plain
	}
	return false
}

func refPerms(d *desc, e entry) map[string]bool {
	r := roleByName[e.Role]
	s := map[string]bool{}
	for _, p := range r.Perms {
		s[p] = true
	}
	if !r.Named {
		return s // raw arrays are granted verbatim
	}
	if d.Rec && s["op"] {
		s["record"] = true
	}
	if s["op"] || (d.Unr && s["present"]) {
		s["token"] = true
	}
	return s
}

// refLogin decides a username/password join.  how names the rule applied.
func refLogin(d *desc, user *string, pw string) (ok bool, perms map[string]bool, e entry, how string) {
	if user == nil {
		return false, nil, entry{}, "nil-username"
	}
	if ent, has := d.Users[*user]; has {
		// an entry always shadows the wildcard
		if refMatches(ent, pw) {
			return true, refPerms(d, ent), ent, "entry"
		}
		return false, nil, ent, "entry"
	}
	if d.Wildcard != nil {
		if refMatches(*d.Wildcard, pw) {
			return true, refPerms(d, *d.Wildcard), *d.Wildcard, "wildcard"
		}
		return false, nil, *d.Wildcard, "wildcard"
	}
	return false, nil, entry{}, "no-entry-no-wildcard"
}

func setOf(l []string) map[string]bool {
	s := map[string]bool{}
	for _, p := range l {
		s[p] = true
	}
	return s
}

func sorted(s map[string]bool) []string {
	l := make([]string, 0, len(s))
	for p := range s {
		l = append(l, p)
	}
	sort.Strings(l)
	return l
}

// diff returns "+extra/-missing" of got against want ("" if equal as sets).
func diff(got, want map[string]bool) string {
	var extra, missing []string
	for p := range got {
		if !want[p] {
			extra = append(extra, p)
		}
	}
	for p := range want {
		if !got[p] {
			missing = append(missing, p)
		}
	}
	if len(extra) == 0 && len(missing) == 0 {
		return ""
	}
	sort.Strings(extra)
	sort.Strings(missing)
	return "+" + strings.Join(extra, ",") + "/-" + strings.Join(missing, ",")
}

func ustr(u *string) string {
	if u == nil {
		return "<nil>"
	}
	return fmt.Sprintf("%q", *u)
}

type loginCase struct {
	Desc desc    `json:"desc"`
	User *string `json:"username"`
	Pw   string  `json:"password"`
}

// judge compares one observed login outcome with the reference.  prefix is
// the signature prefix ("C08" for GetPermission, "C08/join" for the join
// paths).  It returns the violation and a description of the outcome.
func judge(prefix string, c *loginCase, accepted bool, gotUser string, gotPerms []string, gotErr error) (*core.Violation, string) {
	d := &c.Desc
	ok, perms, ent, how := refLogin(d, c.User, c.Pw)
	outcome := "refused"
	if accepted {
		outcome = "accepted:" + strings.Join(sorted(setOf(gotPerms)), ",")
	} else if gotErr != nil {
		outcome = "refused:" + errClass(gotErr)
	}
	outcome = how + "|" + outcome
	mk := func(sig, what string) *core.Violation {
		return &core.Violation{Signature: prefix + "/" + sig,
			What: fmt.Sprintf("%s [description %s; username %s password %q]",
				what, strings.TrimSpace(d.JSON()), ustr(c.User), c.Pw),
			Replay: map[string]any{"case": c}}
	}
	switch {
	case accepted && !ok:
		var sig string
		switch how {
		case "nil-username":
			sig = "accepted-wrongly/nil-username"
		case "no-entry-no-wildcard":
			sig = "accepted-wrongly/no-entry-no-wildcard"
		case "entry":
			k := pwByName[ent.Pw]
			// the rights granted tell which record was used, unless both
			// carry the same rights
			got := setOf(gotPerms)
			viaWildcard := d.Wildcard != nil && refMatches(*d.Wildcard, c.Pw) &&
				diff(got, refPerms(d, *d.Wildcard)) == "" && diff(got, refPerms(d, ent)) != ""
			switch {
			case viaWildcard:
				sig = "wildcard-tried-despite-entry"
			case k.NoPass:
				sig = "empty-password-entry-matched/" + k.Name
			case k.Malformed:
				sig = "malformed-entry-accepted/" + k.Name
			default:
				sig = "entry-mismatch-accepted/" + k.Name
			}
		default:
			k := pwByName[ent.Pw]
			switch {
			case k.NoPass:
				sig = "empty-password-wildcard-matched/" + k.Name
			case k.Malformed:
				sig = "malformed-wildcard-accepted/" + k.Name
			default:
				sig = "wildcard-mismatch-accepted/" + k.Name
			}
		}
		return mk(sig, fmt.Sprintf("login accepted (username %q, permissions %v) but the statement refuses it (rule: %s)",
			gotUser, gotPerms, how)), outcome
	case !accepted && ok:
		return mk("refused-wrongly/"+how+"/"+ent.Pw,
			fmt.Sprintf("login refused (%v) but the %s's password matches", gotErr, how)), outcome
	case accepted:
		if df := diff(setOf(gotPerms), perms); df != "" {
			return mk("wrong-permissions/"+ent.Role+"/"+df,
				fmt.Sprintf("permissions %v, expected exactly %v (role %s via %s)", gotPerms, sorted(perms), ent.Role, how)), outcome
		}
		if gotUser != *c.User {
			return mk("wrong-username", fmt.Sprintf("logged in as %q", gotUser)), outcome
		}
	}
	return nil, outcome
}

func errClass(err error) string {
	s := err.Error()
	if i := strings.Index(s, "encoding/hex"); i >= 0 {
		return "hex"
	}
	if len(s) > 40 {
		s = s[:40]
	}
	return s
}

// ---------------------------------------------------------------------------
// World plumbing: directories, group files, the role table

var groupsDir string
var pristine map[string][]string

func setupDirs() {
	d, err := os.MkdirTemp("", "c08-")
	if err != nil {
		fmt.Println("HARNESS-FAULT property=C08:", err)
		os.Exit(3)
	}
	groupsDir = filepath.Join(d, "groups")
	os.MkdirAll(groupsDir, 0700)
	os.MkdirAll(filepath.Join(d, "data"), 0700)
	group.Directory = groupsDir
	group.DataDirectory = filepath.Join(d, "data")
	tmpRoot = d
}

var tmpRoot string
var stopProf = func() {}

func writeGroup(name string, d *desc) {
	if err := os.WriteFile(filepath.Join(groupsDir, name+".json"), []byte(d.JSON()), 0600); err != nil {
		panic(err)
	}
}

func removeGroup(name string) { os.Remove(filepath.Join(groupsDir, name+".json")) }

// tableDiff names the roles whose package-level table entry differs from the
// pristine copy taken at process start.
func tableDiff() (roles []string, cur map[string][]string) {
	cur = group.VerifC08RoleTable()
	for k, v := range pristine {
		w, ok := cur[k]
		if !ok || strings.Join(v, ",") != strings.Join(w, ",") {
			roles = append(roles, k)
		}
	}
	for k := range cur {
		if _, ok := pristine[k]; !ok {
			roles = append(roles, k)
		}
	}
	sort.Strings(roles)
	return
}

func tableViolation(after string, replay any) *core.Violation {
	roles, cur := tableDiff()
	if len(roles) == 0 {
		return nil
	}
	r := roles[0]
	return &core.Violation{
		Signature: "C08/role-table-mutated/" + r,
		What: fmt.Sprintf("after %s the package-level role table entry %q is %v instead of %v: every later login with that role gets the wrong permissions",
			after, r, cur[r], pristine[r]),
		Replay: replay,
	}
}

func sp(s string) *string { return &s }

func main() {
	start := time.Now()
	o := core.ParseFlags(40, 700)
	res := &core.Result{Property: "C08", Tier: o.Tier,
		Technique: "full product enumeration of group descriptions x credentials on the real readDescription/GetPermission/AddClient/handleClientMessage against a reference written from the statement; explicit-state BFS over moderation histories with the package-level role table in the canonical state; product enumeration of galenectl makePassword parameters through the stored JSON form into Password.Match"}
	log.SetOutput(io.Discard)
	for i := range roleKinds {
		roleByName[roleKinds[i].Name] = &roleKinds[i]
	}
	initPwKinds()
	setupDirs()
	defer os.RemoveAll(tmpRoot)
	vtime.SetVirtual(true) // the refusal path sleeps 200 ms
	vrt.SetMode(vrt.Tasks) // `go` statements of rtpconn/group become pending tasks
	pristine = group.VerifC08RoleTable()

	if o.Replay != "" {
		code := replay(o.Replay)
		os.RemoveAll(tmpRoot)
		os.Exit(code)
	}

	if p := os.Getenv("VERIF_C08_PROF"); p != "" && o.Shard >= 0 {
		if f, err := os.Create(p); err == nil {
			pprof.StartCPUProfile(f)
			stopProf = func() { pprof.StopCPUProfile(); f.Close() }
		}
	}
	debug.SetGCPercent(400)
	if o.Shard >= 0 {
		// shards run the history BFS, one configuration each
		hs := historyConfigs()
		for i, h := range hs {
			if i%o.Shards == o.Shard && core.Want(h.name) {
				runHistory(res, h)
			}
		}
		os.RemoveAll(tmpRoot)
		stopProf()
		core.Finish(res, start)
	}

	// The tool round trip is a separate process; so are the history BFS
	// runs (one process per configuration: a genuine aliasing defect
	// corrupts package-level state of the process that explores it).  Both
	// run alongside the in-process products; results are merged in a fixed
	// order so that the example kept for a signature is reproducible.
	toolRes := &core.Result{}
	toolDone := make(chan struct{})
	go func() {
		defer close(toolDone)
		if core.Want("tool-roundtrip") {
			runTool(toolRes)
		}
	}()
	hs := historyConfigs()
	histRes := make([]*core.Result, len(hs))
	var hwg sync.WaitGroup
	for i, h := range hs {
		histRes[i] = &core.Result{}
		if !core.Want(h.name) {
			continue
		}
		hwg.Add(1)
		go func(i int, name string) {
			defer hwg.Done()
			core.RunShards(histRes[i], 1, []string{"--only", name}, nil)
		}(i, h.name)
	}

	if core.Want("login-product") {
		runLoginProduct(res)
	}
	if core.Want("join-product") {
		runJoinProduct(res, false)
	}
	if core.Want("join-ws") {
		runJoinProduct(res, true)
	}
	hwg.Wait()
	for _, r := range histRes {
		res.Merge(r)
	}
	if core.Want("alias") {
		runAlias(res)
	}
	<-toolDone
	res.Merge(toolRes)

	if roles, cur := tableDiff(); len(roles) > 0 {
		res.Fault = fmt.Sprintf("role table not restored at the end of the run: %v", cur)
	}

	res.Assume("the role table of the statement is the documented one: op={op,present,message,caption,token}, present={present,message}, message={message}, observe={}, caption={caption}, admin={admin}; raw permission arrays are granted verbatim")
	res.Assume("a malformed password record (plain without key, bad hex, unknown type, unknown hash) is a refusal; an entry whose password field is absent or {} is 'an entry with no password'")
	res.Assume("tool round trip: PBKDF2-HMAC identifies passwords of at most 64 bytes that differ only in trailing NUL bytes (RFC 2104 key padding) and a 1-byte derived key cannot separate passwords; like bcrypt's 72-byte truncation these pairs are observed and counted but not demanded to be told apart")
	os.RemoveAll(tmpRoot)
	core.Finish(res, start)
}

// ---------------------------------------------------------------------------
// Replay

func replay(path string) int {
	data, err := os.ReadFile(path)
	if err != nil {
		fmt.Println(err)
		return 2
	}
	var a struct {
		Signature string `json:"signature"`
		Sub       string `json:"sub"`
		Replay    struct {
			Case   json.RawMessage `json:"case"`
			Config string          `json:"config"`
			Ops    []hop           `json:"ops"`
			Alias  *aliasCase      `json:"alias"`
		} `json:"replay"`
	}
	if err := json.Unmarshal(data, &a); err != nil {
		fmt.Println(err)
		return 2
	}
	var v *core.Violation
	switch {
	case a.Replay.Config != "":
		v = replayHistory(a.Replay.Config, a.Replay.Ops)
	case a.Replay.Alias != nil:
		v = aliasOne(a.Replay.Alias)
		group.VerifC08RestoreRoleTable(pristine)
	case strings.HasPrefix(a.Sub, "tool"):
		res := &core.Result{}
		runTool(res)
		for i := range res.Violations {
			if res.Violations[i].Signature == a.Signature {
				v = &res.Violations[i]
			}
		}
	case len(a.Replay.Case) > 0:
		var c loginCase
		if err := json.Unmarshal(a.Replay.Case, &c); err != nil {
			fmt.Println(err)
			return 2
		}
		switch a.Sub {
		case "join-product":
			v, _ = joinOne("replay", &c, false)
		case "join-ws":
			v, _ = joinOne("replay", &c, true)
		default:
			v, _ = loginOne("replay", &c)
		}
	default:
		fmt.Println("unknown replay artefact")
		return 2
	}
	if v != nil {
		fmt.Printf("VIOLATION property=C08 replay=%s\n  signature: %s\n  what: %s\n", path, v.Signature, v.What)
		return 1
	}
	fmt.Println("replay: no violation")
	return 0
}

package main

import (
	"fmt"
	"strings"
	"sync"
	"sync/atomic"
	"time"

	"github.com/jech/galene/group"
	"github.com/jech/galene/rtpconn"

	"verif/core"
)

// ---------------------------------------------------------------------------
// Enumeration of descriptions

func entries(pws []string, roles []string) []*entry {
	out := []*entry{nil}
	for _, p := range pws {
		for _, r := range roles {
			out = append(out, &entry{p, r})
		}
	}
	return out
}

func allPw(thorough bool) []string {
	var l []string
	for _, k := range pwKinds {
		if k.Name == "plain-object-p1" && !thorough {
			continue
		}
		l = append(l, k.Name)
	}
	return l
}

func allRoles() []string {
	var l []string
	for _, r := range roleKinds {
		l = append(l, r.Name)
	}
	return l
}

var bobEntry = entry{"plain-p2", "present"}

// mkDesc builds the description: the enumerated entry under key subject,
// bob fixed, the enumerated wildcard user, the two flags.
func mkDesc(subject string, e, wc *entry, bob, rec, unr bool) desc {
	d := desc{Rec: rec, Unr: unr}
	if bob || e != nil {
		d.Users = map[string]entry{}
	}
	if bob {
		d.Users["bob"] = bobEntry
	}
	if e != nil {
		d.Users[subject] = *e
	}
	if wc != nil {
		w := *wc
		d.Wildcard = &w
	}
	return d
}

// descriptions enumerates the description product of a tier.
func descriptions(quickSubset bool) []desc {
	var out []desc
	thorough := !quickSubset
	full := entries(allPw(thorough), allRoles())
	type part struct {
		subject string
		es, wcs []*entry
	}
	var parts []part
	if thorough {
		parts = []part{{"alice", full, full}, {"", full, full}}
	} else {
		wq := entries([]string{"empty-object", "plain-p1", "wildcard", "bcrypt-p1", "plain-nokey"},
			[]string{"op", "present", "observe", "raw-present-x"})
		w0 := []*entry{nil, {"wildcard", "message"}, {"plain-p1", "op"}}
		parts = []part{{"alice", full, wq}, {"", full, w0}}
	}
	for _, p := range parts {
		for _, e := range p.es {
			for _, wc := range p.wcs {
				for f := 0; f < 4; f++ {
					out = append(out, mkDesc(p.subject, e, wc, true, f&1 != 0, f&2 != 0))
					if e == nil {
						// also: no users map at all
						out = append(out, mkDesc(p.subject, e, wc, false, f&1 != 0, f&2 != 0))
					}
				}
			}
		}
	}
	return out
}

var credUsers = []*string{sp("alice"), sp("bob"), sp("carol"), sp(""), nil}
var credPws = []string{"p1", "p2", "", "p1x", "caf\u00e9", "caf\u00e8"}

// ---------------------------------------------------------------------------
// login-product

// loginOne writes the description as a group file, has the real
// readDescription parse it and asks the real GetPermission.
func loginOne(name string, c *loginCase) (*core.Violation, string) {
	writeGroup(name, &c.Desc)
	defer removeGroup(name)
	d, err := group.GetDescription(name)
	if err != nil {
		return &core.Violation{Signature: "C08/description-unreadable",
			What:   fmt.Sprintf("readDescription failed on %s: %v", strings.TrimSpace(c.Desc.JSON()), err),
			Replay: map[string]any{"case": c}}, "unreadable"
	}
	return loginOn(d, name, c)
}

func loginOn(d *group.Description, name string, c *loginCase) (*core.Violation, string) {
	u, perms, err := d.GetPermission(name, group.ClientCredentials{Username: c.User, Password: c.Pw})
	return judge("C08", c, err == nil, u, perms, err)
}

func runLoginProduct(res *core.Result) {
	start := time.Now()
	descs := descriptions(core.Quick())
	var evals, files int64
	var outcomes core.Outcomes
	var samples []any
	var smu sync.Mutex
	sampled := map[string]bool{}
	var next int64 = -1
	var stopped atomic.Bool
	var wg sync.WaitGroup
	for g := 0; g < core.NCPU(); g++ {
		wg.Add(1)
		go func(g int) {
			defer wg.Done()
			name := fmt.Sprintf("lp%d", g)
			for {
				i := int(atomic.AddInt64(&next, 1))
				if i >= len(descs) {
					return
				}
				if !core.TimeLeft() {
					stopped.Store(true)
					return
				}
				dd := &descs[i]
				writeGroup(name, dd)
				d, err := group.GetDescription(name)
				atomic.AddInt64(&files, 1)
				if err != nil {
					res.Violate(core.Violation{Signature: "C08/description-unreadable", Sub: "login-product",
						What: fmt.Sprintf("readDescription failed on %s: %v", strings.TrimSpace(dd.JSON()), err)})
					continue
				}
				for _, u := range credUsers {
					for _, pw := range credPws {
						c := &loginCase{Desc: *dd, User: u, Pw: pw}
						v, out := loginOn(d, name, c)
						atomic.AddInt64(&evals, 1)
						outcomes.Add(out)
						if v != nil {
							v.Sub = "login-product"
							res.Violate(*v)
						} else if strings.Contains(out, "accepted") || strings.Contains(out, "hex") {
							smu.Lock()
							if !sampled[out] && len(samples) < 3 && i%7 == 5 {
								sampled[out] = true
								samples = append(samples, map[string]any{"description": strings.TrimSpace(dd.JSON()),
									"username": ustr(u), "password": pw, "outcome": out})
							}
							smu.Unlock()
						}
					}
				}
				removeGroup(name)
			}
		}(g)
	}
	wg.Wait()
	res.AddSub(core.Sub{
		Name: "login-product", States: files, Transitions: evals, Executions: evals,
		Outcomes: outcomes.N(), Exhaustive: !stopped.Load(),
		Bound: fmt.Sprintf("%d description files (entry under key alice|\"\" x wildcard-user x allow-recording x unrestricted-tokens, bob fixed) x %d usernames x %d passwords",
			len(descs), len(credUsers), len(credPws)),
		Samples: samples, WallS: time.Since(start).Seconds(),
	})
}

// ---------------------------------------------------------------------------
// alias: the returned slice must not alias state that later logins read

type aliasCase struct {
	Role  string   `json:"role"`
	Rec   bool     `json:"allow-recording"`
	Unr   bool     `json:"unrestricted-tokens"`
	Edits []string `json:"edits"` // moderation kinds applied to the session holding the slice
}

// aliasEdits: every sequence of one or two moderation kinds.
func aliasEdits() [][]string {
	var out [][]string
	for _, a := range hkinds {
		out = append(out, []string{a})
	}
	for _, a := range hkinds {
		for _, b := range hkinds {
			out = append(out, []string{a, b})
		}
	}
	return out
}

func aliasOne(c *aliasCase) *core.Violation {
	v, _ := aliasRun(c)
	return v
}

func aliasRun(c *aliasCase) (*core.Violation, string) {
	held := ""
	v := aliasDo(c, &held)
	return v, held
}

func aliasDo(c *aliasCase, held *string) *core.Violation {
	defer group.VerifC08RestoreRoleTable(pristine)
	e := entry{"plain-p1", c.Role}
	wc := entry{"wildcard", c.Role}
	dd := desc{Users: map[string]entry{"alice": e, "bob": e}, Wildcard: &wc, Rec: c.Rec, Unr: c.Unr}
	const name = "alias"
	writeGroup(name, &dd)
	defer removeGroup(name)
	d, err := group.GetDescription(name)
	if err != nil {
		return &core.Violation{Signature: "C08/description-unreadable", What: err.Error()}
	}
	rp := map[string]any{"alias": c}
	first := &loginCase{Desc: dd, User: sp("alice"), Pw: "p1"}
	_, perms, err := d.GetPermission(name, group.ClientCredentials{Username: first.User, Password: first.Pw})
	if v, _ := judge("C08", first, err == nil, "alice", perms, err); v != nil {
		*held = "!first-login"
		return v
	}
	before := append([]string(nil), perms...)
	// The slice is installed in a real session exactly as AddClient does
	// (Init), and the session is moderated by the real handleAction: only
	// edits galene itself performs on a session's permissions.
	holder := rtpconn.VerifC08NewClient("holder")
	holder.Init("alice", perms)
	for _, k := range c.Edits {
		if err := holder.ChangePermissions(k); err != nil {
			return &core.Violation{Signature: "C08/history/action-error", What: err.Error()}
		}
		holder.DropActions()
	}
	*held = strings.Join(holder.Permissions(), ",")
	after := fmt.Sprintf("a login as alice (role %s, permissions %v) whose session was then moderated with %v", c.Role, before, c.Edits)
	if v := tableViolation(after, rp); v != nil {
		return v
	}
	relogin := func(d *group.Description, who string, u, pw string) *core.Violation {
		lc := &loginCase{Desc: dd, User: sp(u), Pw: pw}
		v, _ := loginOn(d, name, lc)
		if v == nil {
			return nil
		}
		return &core.Violation{Signature: "C08/aliased-permissions/" + c.Role,
			What:   fmt.Sprintf("after %s, a later login of %s (%s) no longer gets the configured permissions: %s", after, who, u, v.What),
			Replay: rp}
	}
	if v := relogin(d, "another user with the same role", "bob", "p1"); v != nil {
		return v
	}
	if v := relogin(d, "a wildcard user with the same role", "carol", ""); v != nil {
		return v
	}
	if v := relogin(d, "the same user", "alice", "p1"); v != nil {
		return v
	}
	d2, err := group.GetDescription(name)
	if err != nil {
		return &core.Violation{Signature: "C08/description-unreadable", What: err.Error()}
	}
	if v := relogin(d2, "a user of a freshly read description", "bob", "p1"); v != nil {
		return v
	}
	return nil
}

func runAlias(res *core.Result) {
	start := time.Now()
	var n int64
	var outcomes core.Outcomes
	var samples []any
	edits := aliasEdits()
	reported, tainted := 0, false
cases:
	for _, r := range roleKinds {
		for f := 0; f < 4; f++ {
			for _, e := range edits {
				c := &aliasCase{r.Name, f&1 != 0, f&2 != 0, e}
				v, held := aliasRun(c)
				n++
				if v != nil && held == "!first-login" && reported > 0 {
					// the very first login of a fresh case is wrong after an
					// earlier violation: unrestorable package-level state
					tainted = true
					break cases
				}
				if v != nil {
					reported++
					v.Sub = "alias"
					res.Violate(*v)
					outcomes.Add(v.Signature)
				} else {
					outcomes.Add(r.Name + "->" + held + ":intact")
					if len(samples) < 2 && n%97 == 11 {
						samples = append(samples, c)
					}
				}
			}
		}
	}
	note := ""
	if tainted {
		note = "stopped early: after a reported violation the first login of a fresh case was already wrong (package-level state of the code under test damaged beyond what the harness restores)"
	}
	res.AddSub(core.Sub{Name: "alias", States: n, Transitions: n * 5, Executions: n, Outcomes: outcomes.N(),
		Exhaustive: !tainted, Note: note, Samples: samples, WallS: time.Since(start).Seconds(),
		Bound: fmt.Sprintf("%d roles x 4 flag settings x %d sequences of <=2 moderation kinds applied (real Init + handleAction) to the session holding the returned slice, then 4 re-logins and a role-table comparison each", len(roleKinds), len(edits))})
}

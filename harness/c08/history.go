package main

import (
	"fmt"
	"strings"

	"github.com/jech/galene/group"
	"github.com/jech/galene/rtpconn"

	"verif/core"
	"verif/seqx"
	"verif/vrt"
)

// hop is one moderation action applied to a member session (what an
// operator's useraction enqueues on the target).
type hop struct {
	Target string `json:"target"`
	Kind   string `json:"kind"`
}

var hkinds = []string{"op", "unop", "present", "unpresent", "shutup", "unshutup"}

type huser struct {
	Name string // the username that logs in
	Pw   string // the password it uses
}

type hconfig struct {
	name  string
	d     desc
	users []huser
	depth int
}

const hgroup = "hist"
const hcopy = "hist-copy" // same file under another name: always parsed afresh

func historyConfigs() []*hconfig { return historyConfigsFor(core.Quick()) }

func historyConfigsFor(quick bool) []*hconfig {
	var out []*hconfig
	for f := 0; f < 4; f++ {
		rec, unr := f&1 != 0, f&2 != 0
		d := desc{Users: map[string]entry{}, Rec: rec, Unr: unr}
		var users []huser
		add := func(name, role string) {
			d.Users[name] = entry{"plain-p1", role}
			users = append(users, huser{name, "p1"})
		}
		add("uop", "op")
		add("upres", "present")
		add("umsg", "message")
		add("uraw", "raw-present-x")
		if !quick {
			add("uobs", "observe")
			add("ucap", "caption")
			// a user who gets in through the wildcard entry shares the
			// presenter role with upres
			d.Wildcard = &entry{"wildcard", "present"}
			users = append(users, huser{"carol", "anything"})
		}
		b := func(x bool) int {
			if x {
				return 1
			}
			return 0
		}
		out = append(out, &hconfig{
			name:  fmt.Sprintf("history/rec%d-unr%d", b(rec), b(unr)),
			d:     d,
			users: users,
			depth: core.Pick(3, 4),
		})
	}
	return out
}

type hworld struct {
	cfg     *hconfig
	members []*rtpconn.VerifC08Client
	init    *core.Violation
	outcome string
	path    string // the actions applied so far
}

// verified remembers the histories after which the oracle has already been
// evaluated and held (executions are deterministic): when the explorer
// replays a prefix to reach a state, the fresh logins are not repeated, so an
// explored execution is exactly "a sequence of moderation actions, then a
// fresh login of every user".
var verified = map[string]bool{}

// A violation may leave package-level state of the code under test damaged
// in ways the harness cannot restore (it restores the role table and the
// group registry only).  If, after a violation has been reported, a fresh
// world no longer starts correctly, the process is tainted: exploration
// stops (exhaustive=false) instead of reporting consequences that would not
// reproduce from their own replay artefact.
var histReported int
var histTainted bool

func (h *hconfig) fresh() seqx.World {
	// The role table is package-level state: restore it from the pristine
	// copy.  (The oracle of the previous execution has already compared it.)
	group.VerifC08RestoreRoleTable(pristine)
	group.VerifC08ResetGroups()
	vrt.ResetTasks()
	writeGroupOnce(hgroup, &h.d)
	writeGroupOnce(hcopy, &h.d)
	w := &hworld{cfg: h}
	for _, u := range h.users {
		c := rtpconn.VerifC08NewClient("m-" + u.Name)
		name := u.Name
		err := c.Join(hgroup, &name, u.Pw)
		lc := &loginCase{Desc: h.d, User: &name, Pw: u.Pw}
		var v *core.Violation
		if err != nil {
			v = &core.Violation{Signature: "C08/join/handler-error", What: err.Error()}
		} else {
			v, _ = judge("C08/join", lc, c.InGroup(), c.Username(), c.Permissions(), nil)
		}
		if v != nil && w.init == nil {
			if histReported > 0 {
				histTainted = true
			} else {
				w.init = v
			}
		}
		w.members = append(w.members, c)
	}
	w.settle()
	return w
}

var written = map[string]string{}

// writeGroupOnce keeps the file (and its mtime) stable across executions so
// that the group keeps its cached description, as a running server does.
func writeGroupOnce(name string, d *desc) {
	j := d.JSON()
	if written[name] == j {
		return
	}
	writeGroup(name, d)
	written[name] = j
}

// settle plays the client loops: queued actions are handled by the real
// handleAction, spawned notification goroutines run, websocket output is
// discarded.
func (w *hworld) settle() {
	for round := 0; round < 4; round++ {
		busy := false
		for _, m := range w.members {
			acts, _ := m.RunActions()
			if len(acts) > 0 {
				busy = true
			}
			m.Drain()
		}
		for len(vrt.Pending()) > 0 {
			vrt.TakeTask(0).Fn()
			busy = true
		}
		if !busy {
			return
		}
	}
}

func (w *hworld) Ops() []seqx.Op {
	var ops []seqx.Op
	if histTainted {
		return nil
	}
	for _, k := range hkinds {
		for _, u := range w.cfg.users {
			ops = append(ops, hop{u.Name, k})
		}
	}
	return ops
}

func (w *hworld) member(name string) *rtpconn.VerifC08Client {
	for i, u := range w.cfg.users {
		if u.Name == name {
			return w.members[i]
		}
	}
	return nil
}

func (w *hworld) Apply(o seqx.Op) *core.Violation {
	if histTainted {
		return nil
	}
	if w.init != nil {
		histReported++
		return w.init
	}
	x := o.(hop)
	t := w.member(x.Target)
	if t == nil {
		return &core.Violation{Signature: "C08/harness/unknown-target", What: x.Target}
	}
	if err := t.ChangePermissions(x.Kind); err != nil {
		return &core.Violation{Signature: "C08/history/action-error", What: err.Error()}
	}
	w.settle()
	w.outcome = fmt.Sprintf("%s:%s->%s", roleOf(w.cfg, x.Target), x.Kind, strings.Join(t.Permissions(), ","))
	w.path += x.Kind + "@" + x.Target + ";"
	key := w.cfg.name + "|" + w.path
	if verified[key] {
		return nil
	}
	if v := w.oracle(fmt.Sprintf("%q applied to the session of %s", x.Kind, x.Target)); v != nil {
		histReported++
		return v
	}
	verified[key] = true
	return nil
}

func roleOf(h *hconfig, user string) string {
	if e, ok := h.d.Users[user]; ok {
		return e.Role
	}
	if h.d.Wildcard != nil {
		return h.d.Wildcard.Role
	}
	return "?"
}

// oracle: a fresh login of every configured user yields exactly the
// reference permissions, whatever happened to the other sessions.
func (w *hworld) oracle(after string) *core.Violation {
	if v := tableViolation(after, nil); v != nil {
		return v
	}
	g := group.Get(hgroup)
	if g == nil {
		return &core.Violation{Signature: "C08/history/group-vanished", What: "the group disappeared"}
	}
	for _, u := range w.cfg.users {
		name := u.Name
		lc := &loginCase{Desc: w.cfg.d, User: &name, Pw: u.Pw}
		classify := func(v *core.Violation) *core.Violation {
			// is the cached description damaged, or something global?
			role := roleOf(w.cfg, name)
			d2, err := group.GetDescription(hcopy)
			if err == nil {
				if v2, _ := loginOn(d2, hcopy, lc); v2 == nil {
					return &core.Violation{Signature: "C08/aliased-permissions/" + role,
						What: fmt.Sprintf("after %s, a fresh login of %s on the group's cached description no longer gets the configured permissions (a fresh parse of the same file does): %s", after, name, v.What)}
				}
			}
			v.Signature = strings.Replace(v.Signature, "C08/join/", "C08/", 1)
			v.Signature = strings.Replace(v.Signature, "C08/", "C08/fresh-login/", 1)
			v.What = fmt.Sprintf("after %s, a fresh login of %s: %s", after, name, v.What)
			v.Replay = nil
			return v
		}
		// (a) through GetPermission on the group's current description
		if v, _ := loginOn(g.Description(), hgroup, lc); v != nil {
			return classify(v)
		}
		// (b) through a real join of a new session
		c := rtpconn.VerifC08NewClient("fresh-" + name)
		if err := c.Join(hgroup, &name, u.Pw); err != nil {
			return &core.Violation{Signature: "C08/join/handler-error", What: err.Error()}
		}
		v, _ := judge("C08/join", lc, c.InGroup(), c.Username(), c.Permissions(), nil)
		if c.InGroup() {
			c.Leave(hgroup)
		}
		c.DropActions()
		c.Drain()
		for _, m := range w.members {
			m.DropActions()
			m.Drain()
		}
		vrt.ResetTasks()
		if v != nil {
			return classify(v)
		}
		if v := tableViolation(after+" and a fresh join of "+name, nil); v != nil {
			return v
		}
	}
	return nil
}

func (w *hworld) Canon() string {
	var b strings.Builder
	g := group.Get(hgroup)
	var d *group.Description
	if g != nil {
		d = g.Description()
	}
	for i, m := range w.members {
		p := m.Permissions()
		fmt.Fprintf(&b, "%s=%s/%d/%d@%s@%s;", w.cfg.users[i].Name, strings.Join(p, ","), len(p), cap(p),
			group.VerifC08AliasRole(p), group.VerifC08AliasUser(d, p))
	}
	b.WriteString("#")
	t := group.VerifC08RoleTable()
	for _, r := range sorted(keys(t)) {
		fmt.Fprintf(&b, "%s=%s;", r, strings.Join(t[r], ","))
	}
	return b.String()
}

func keys(m map[string][]string) map[string]bool {
	s := map[string]bool{}
	for k := range m {
		s[k] = true
	}
	return s
}

func (w *hworld) Outcome() string { return w.outcome }

func (h *hconfig) config() seqx.Config {
	return seqx.Config{Name: h.name, Fresh: h.fresh, MaxDepth: h.depth, Parallel: 1}
}

func runHistory(res *core.Result, h *hconfig) {
	sub := seqx.Explore(h.config(), res)
	group.VerifC08RestoreRoleTable(pristine)
	group.VerifC08ResetGroups()
	vrt.ResetTasks()
	if histTainted {
		sub.Exhaustive = false
		sub.Note = "stopped early: after a reported violation a fresh world no longer started correctly (package-level state of the code under test damaged beyond what the harness restores); " + sub.Note
	}
	sub.Bound = fmt.Sprintf("%s; %d member sessions (%s) x %d action kinds; after every action a fresh GetPermission and a fresh real join of each of the %d users",
		sub.Bound, len(h.users), userList(h), len(hkinds), len(h.users))
	res.AddSub(sub)
}

func userList(h *hconfig) string {
	var l []string
	for _, u := range h.users {
		l = append(l, u.Name+":"+roleOf(h, u.Name))
	}
	return strings.Join(l, " ")
}

func replayHistory(name string, ops []hop) *core.Violation {
	quick := true
	for _, o := range ops {
		if o.Target == "uobs" || o.Target == "ucap" || o.Target == "carol" {
			quick = false // the artefact comes from the thorough tier
		}
	}
	for _, h := range historyConfigsFor(quick) {
		if h.name == name {
			l := make([]seqx.Op, len(ops))
			for i, o := range ops {
				l[i] = o
			}
			v := seqx.Replay(h.config(), l)
			group.VerifC08RestoreRoleTable(pristine)
			return v
		}
	}
	return &core.Violation{Signature: "C08/harness/unknown-config", What: name}
}

package main

import (
	"fmt"
	"net"
	"strings"
	"time"

	"github.com/jech/galene/conn"
	"github.com/jech/galene/group"
	"github.com/jech/galene/rtpconn"

	"verif/core"
	"verif/vrt"
)

// fakeClient is a harness implementation of group.Client that records what
// the group tells it.
type fakeClient struct {
	id       string
	username string
	perms    []string
	inits    int
	g        *group.Group
	joined   []string // kinds
	pushes   []push
	kicks    int
}

type push struct {
	kind, id, username string
	perms              []string
}

func (c *fakeClient) Group() *group.Group          { return c.g }
func (c *fakeClient) Addr() net.Addr               { return nil }
func (c *fakeClient) Id() string                   { return c.id }
func (c *fakeClient) Username() string             { return c.username }
func (c *fakeClient) Init(u string, p []string)    { c.username = u; c.perms = p; c.inits++ }
func (c *fakeClient) Permissions() []string        { return c.perms }
func (c *fakeClient) Data() map[string]interface{} { return nil }
func (c *fakeClient) PushConn(g *group.Group, id string, up conn.Up, tracks []conn.UpTrack, replace string) error {
	return nil
}
func (c *fakeClient) RequestConns(target group.Client, g *group.Group, id string) error { return nil }
func (c *fakeClient) Joined(group, kind string) error {
	c.joined = append(c.joined, kind)
	return nil
}
func (c *fakeClient) PushClient(group, kind, id, username string, perms []string, data map[string]interface{}) error {
	c.pushes = append(c.pushes, push{kind, id, username, append([]string(nil), perms...)})
	return nil
}
func (c *fakeClient) Kick(id string, user *string, message string) error { c.kicks++; return nil }

func inGroup(g *group.Group, id string) bool {
	for _, c := range g.GetClients(nil) {
		if c.Id() == id {
			return true
		}
	}
	return false
}

// joinOne runs one join: an observer (bob, always configured) is in the
// group; the candidate joins with the credentials under test, either as a
// harness client through group.AddClient or as a real webClient through
// handleClientMessage.
func joinOne(name string, c *loginCase, ws bool) (*core.Violation, string) {
	sub := "join-product"
	if ws {
		sub = "join-ws"
	}
	rp := map[string]any{"case": c}
	mk := func(sig, what string) *core.Violation {
		return &core.Violation{Signature: "C08/join/" + sig, Sub: sub, Replay: rp,
			What: fmt.Sprintf("%s [description %s; username %s password %q; %s]",
				what, strings.TrimSpace(c.Desc.JSON()), ustr(c.User), c.Pw, sub)}
	}
	group.VerifC08ResetGroups()
	vrt.ResetTasks()
	writeGroup(name, &c.Desc)
	defer removeGroup(name)
	defer group.VerifC08ResetGroups()

	obs := &fakeClient{id: "obs"}
	g, err := group.AddClient(name, obs, group.ClientCredentials{Username: sp("bob"), Password: "p2"})
	if err != nil {
		return mk("observer-refused", fmt.Sprintf("bob/p2 could not join: %v", err)), "observer-refused"
	}
	obs.g = g
	obs.pushes = nil

	refOK, refP, ent, _ := refLogin(&c.Desc, c.User, c.Pw)

	var accepted bool
	var gotUser string
	var gotPerms []string
	var gotErr error
	var selfJoined, selfPushes int
	var wsFail bool
	const id = "cand"
	if !ws {
		cand := &fakeClient{id: id}
		var g2 *group.Group
		g2, gotErr = group.AddClient(name, cand, group.ClientCredentials{Username: c.User, Password: c.Pw})
		accepted = gotErr == nil
		if accepted {
			cand.g = g2
			if cand.inits == 0 {
				return mk("accepted-without-init", "the client was admitted without Init"), "x"
			}
		}
		gotUser, gotPerms = cand.username, cand.perms
		for _, k := range cand.joined {
			if k == "join" {
				selfJoined++
			}
		}
		selfPushes = len(cand.pushes)
		if accepted {
			defer group.DelClient(cand)
		}
	} else {
		cand := rtpconn.VerifC08NewClient(id)
		if err := cand.Join(name, c.User, c.Pw); err != nil {
			return mk("handler-error", fmt.Sprintf("handleClientMessage(join) returned %v (the connection would be torn down)", err)), "x"
		}
		accepted = cand.InGroup()
		gotUser, gotPerms = cand.Username(), cand.Permissions()
		// what the client loop would do next: run the queued actions
		acts, aerr := cand.RunActions()
		if aerr != nil {
			return mk("action-error", fmt.Sprintf("handleAction returned %v", aerr)), "x"
		}
		for _, a := range acts {
			switch a.Type {
			case "joined":
				if a.Kind == "join" {
					selfJoined++
				}
			case "pushClient":
				selfPushes++
			}
		}
		// and what went to the websocket
		nJoin := 0
		for _, m := range cand.Drain() {
			if m.Type != "joined" {
				continue
			}
			switch m.Kind {
			case "fail":
				wsFail = true
				gotErr = fmt.Errorf("%s", m.Value)
			case "join":
				nJoin++
				if df := diff(setOf(m.Perms), setOf(gotPerms)); df != "" {
					return mk("joined-message-permissions", fmt.Sprintf("joined{join} announces %v but the session holds %v", m.Perms, gotPerms)), "x"
				}
				if c.User != nil && m.Username != *c.User {
					return mk("wrong-username", fmt.Sprintf("joined{join} names %q", m.Username)), "x"
				}
			}
		}
		if accepted && (nJoin != 1 || wsFail) {
			return mk("accepted-without-joined-message", fmt.Sprintf("admitted, but %d joined{join} messages and fail=%v were written", nJoin, wsFail)), "x"
		}
		if !accepted && (!wsFail || nJoin != 0) {
			return mk("refused-without-fail-message", fmt.Sprintf("not admitted, but joined{fail}=%v and %d joined{join} were written", wsFail, nJoin)), "x"
		}
		if accepted {
			defer func() {
				cand.Leave(name)
				cand.DropActions()
			}()
		}
	}
	defer group.DelClient(obs)

	// 1. decision and rights: the same oracle as for GetPermission
	v, outcome := judge("C08/join", c, accepted, gotUser, gotPerms, gotErr)
	if v != nil {
		v.Sub = sub
		v.What += " [" + sub + "]"
		return v, outcome
	}
	_ = ent
	member := inGroup(g, id)
	othersAdd := 0
	var othersPerms []string
	for _, p := range obs.pushes {
		if p.id == id && p.kind == "add" {
			othersAdd++
			othersPerms = p.perms
		}
	}
	if !refOK {
		// 2. a refused client is left outside the group
		if member {
			return mk("refused-but-inside-group", "the join was refused but the client is among the group's clients"), outcome
		}
		if selfJoined > 0 {
			return mk("refused-but-notified/joined", "the refused client was told joined{join}"), outcome
		}
		if selfPushes > 0 {
			return mk("refused-but-notified/pushclient", "the refused client was sent the member list"), outcome
		}
		if othersAdd > 0 {
			return mk("refused-but-notified/others-add", "another member was told that the refused client was added"), outcome
		}
		if len(g.GetClients(nil)) != 1 {
			return mk("refused-but-membership-changed", fmt.Sprintf("the group has %d clients after the refusal", len(g.GetClients(nil)))), outcome
		}
		return nil, outcome
	}
	// 3. an accepted client is inside, with exactly the reference rights
	if !member {
		return mk("accepted-but-outside-group", "the join was accepted but the client is not among the group's clients"), outcome
	}
	if selfJoined != 1 {
		return mk("accepted-without-joined", fmt.Sprintf("the admitted client got %d joined{join}", selfJoined)), outcome
	}
	if othersAdd != 1 {
		return mk("accepted-but-not-announced", fmt.Sprintf("other members got %d add notifications", othersAdd)), outcome
	}
	if df := diff(setOf(othersPerms), refP); df != "" {
		return mk("announced-permissions/"+ent.Role+"/"+df, fmt.Sprintf("other members were told permissions %v, expected %v", othersPerms, sorted(refP))), outcome
	}
	return nil, outcome
}

func joinDescriptions() []desc {
	var es, wcs []*entry
	if core.Quick() {
		es = []*entry{nil, {"plain-p1", "op"}, {"plain-p2", "present"}, {"empty-object", "op"}, {"absent", "message"},
			{"wildcard", "message"}, {"pbkdf2-p1", "caption"}, {"plain-nokey", "op"}, {"unknown-type", "admin"}, {"plain-p1", "raw-present-x"}}
		wcs = []*entry{nil, {"wildcard", "present"}, {"plain-p1", "message"}, {"plain-nokey", "op"}, {"empty-object", "observe"}}
	} else {
		es = entries(allPw(true), allRoles())
		wcs = entries([]string{"wildcard", "plain-p1", "bcrypt-p1", "plain-nokey", "empty-object"}, []string{"present", "op"})
	}
	var out []desc
	for _, subject := range []string{"alice", ""} {
		for _, e := range es {
			for _, wc := range wcs {
				for f := 0; f < 4; f++ {
					out = append(out, mkDesc(subject, e, wc, true, f&1 != 0, f&2 != 0))
				}
			}
		}
	}
	return out
}

func runJoinProduct(res *core.Result, ws bool) {
	start := time.Now()
	name := "join-product"
	if ws {
		name = "join-ws"
	}
	descs := joinDescriptions()
	var n int64
	var outcomes core.Outcomes
	var samples []any
	exhaustive := true
loop:
	for i := range descs {
		for _, u := range credUsers {
			for _, pw := range credPws {
				if n%256 == 0 && !core.TimeLeft() {
					exhaustive = false
					break loop
				}
				c := &loginCase{Desc: descs[i], User: u, Pw: pw}
				v, out := joinOne("j", c, ws)
				n++
				outcomes.Add(out)
				if v != nil {
					v.Sub = name
					res.Violate(*v)
				} else if len(samples) < 3 && n%977 == 5 {
					samples = append(samples, map[string]any{"description": strings.TrimSpace(descs[i].JSON()),
						"username": ustr(u), "password": pw, "outcome": out})
				}
			}
		}
	}
	how := "harness clients through group.AddClient"
	if ws {
		how = "real webClient through handleClientMessage{join} and handleAction"
	}
	res.AddSub(core.Sub{Name: name, States: int64(len(descs)), Transitions: n, Executions: n,
		Outcomes: outcomes.N(), Exhaustive: exhaustive, Samples: samples, WallS: time.Since(start).Seconds(),
		Bound: fmt.Sprintf("%d descriptions x %d usernames x %d passwords, %s, one observer member", len(descs), len(credUsers), len(credPws), how)})
}

package main

import (
	"bufio"
	"bytes"
	"encoding/json"
	"fmt"
	"os"
	"os/exec"
	"path/filepath"
	"strings"
	"time"

	"verif/core"
)

// The tool round trip runs in the galenectl binary itself (package main):
// exports/galenectl/c08_roundtrip.go is added to it by the overlay.

func goTool() (string, []string) {
	env := os.Environ()
	clean := env[:0:0]
	for _, e := range env {
		if strings.HasPrefix(e, "GOFLAGS=") || strings.HasPrefix(e, "GOTOOLCHAIN=") ||
			strings.HasPrefix(e, "GOSUMDB=") || strings.HasPrefix(e, "GOPROXY=") ||
			strings.HasPrefix(e, "GODEBUG=") || strings.HasPrefix(e, "GOMAXPROCS=") {
			continue
		}
		clean = append(clean, e)
	}
	gobin := os.Getenv("VERIF_GO")
	if gobin == "" {
		// as cmd/check does: the toolchain /repo selects
		cmd := exec.Command("go", "env", "GOROOT")
		cmd.Dir = "/repo"
		cmd.Env = append(append([]string{}, clean...), "GOFLAGS=-mod=mod", "GOPROXY=off")
		if out, err := cmd.Output(); err == nil {
			p := filepath.Join(strings.TrimSpace(string(out)), "bin", "go")
			if _, err := os.Stat(p); err == nil {
				gobin = p
			}
		}
	}
	if gobin == "" {
		p := "/root/go/pkg/mod/golang.org/toolchain@v0.0.1-go1.24.0.linux-amd64/bin/go"
		if _, err := os.Stat(p); err == nil {
			gobin = p
		} else {
			gobin = "go"
		}
	}
	clean = append(clean, "GOFLAGS=-mod=mod", "GOPROXY=off", "GOTOOLCHAIN=local",
		"GOSUMDB=off", "GODEBUG=goindex=0", "CGO_ENABLED=0")
	return gobin, clean
}

// overlayFor finds the overlay the running harness was built with: the
// binary is .build/bin<tag>/c08, the overlay .build/overlay<tag>.json.
func overlayFor() (overlay, bindir string) {
	build := filepath.Join(core.VerifDir(), ".build")
	tag := ""
	if self, err := os.Executable(); err == nil {
		d := filepath.Base(filepath.Dir(self))
		if strings.HasPrefix(d, "bin") {
			tag = strings.TrimPrefix(d, "bin")
		}
	}
	return filepath.Join(build, "overlay"+tag+".json"), filepath.Join(build, "bin"+tag)
}

type toolReport struct {
	Makes        int64    `json:"makes"`
	Evaluations  int64    `json:"evaluations"`
	Outcomes     []string `json:"outcomes"`
	Exhaustive   bool     `json:"exhaustive"`
	Unsupported  []string `json:"unsupported"`
	MakeErrors   int64    `json:"make_errors"`
	NulEquiv     int64    `json:"nul_equivalent_pairs_observed_matching"`
	ShortKeySkip int64    `json:"short_key_pairs_not_demanded"`
	ShortKeyHit  int64    `json:"short_key_pairs_observed_matching"`
	Violations   []struct {
		Signature string `json:"signature"`
		What      string `json:"what"`
		Case      any    `json:"case"`
	} `json:"violations"`
	Samples []any  `json:"samples"`
	Bound   string `json:"bound"`
}

func runTool(res *core.Result) {
	start := time.Now()
	fault := func(s string) {
		res.AddSub(core.Sub{Name: "tool-roundtrip", Exhaustive: false, Note: "not run: " + s})
		res.Fault = "tool-roundtrip: " + s
	}
	overlay, bindir := overlayFor()
	if _, err := os.Stat(overlay); err != nil {
		fault("no overlay " + overlay)
		return
	}
	gobin, env := goTool()
	bin := filepath.Join(bindir, "c08-galenectl")
	build := exec.Command(gobin, "build", "-tags", "verif", "-overlay", overlay, "-o", bin,
		"github.com/jech/galene/galenectl")
	build.Dir = core.VerifDir()
	build.Env = env
	if out, err := build.CombinedOutput(); err != nil {
		fault(fmt.Sprintf("go build galenectl: %v\n%s", err, out))
		return
	}
	left := int(time.Until(core.Opts().Deadline).Seconds())
	if left < 5 {
		left = 5
	}
	run := exec.Command(bin)
	run.Env = append(os.Environ(), "VERIF_C08_ROUNDTRIP="+core.Opts().Tier, fmt.Sprintf("VERIF_C08_BUDGET=%d", left))
	var stdout, stderr bytes.Buffer
	run.Stdout, run.Stderr = &stdout, &stderr
	err := run.Run()
	var rep *toolReport
	sc := bufio.NewScanner(&stdout)
	sc.Buffer(make([]byte, 1<<20), 1<<24)
	for sc.Scan() {
		if l := sc.Text(); strings.HasPrefix(l, "C08RT ") {
			var r toolReport
			if json.Unmarshal([]byte(strings.TrimPrefix(l, "C08RT ")), &r) == nil {
				rep = &r
			}
		}
	}
	if rep == nil {
		s := stderr.String()
		if len(s) > 1500 {
			s = s[len(s)-1500:]
		}
		fault(fmt.Sprintf("galenectl round-trip run produced no report (%v): %s", err, s))
		return
	}
	for _, v := range rep.Violations {
		res.Violate(core.Violation{Signature: v.Signature, What: v.What, Sub: "tool-roundtrip",
			Replay: map[string]any{"tool": v.Case}})
	}
	note := fmt.Sprintf("makePassword does not support %v; %d make errors; pbkdf2 pairs differing only in trailing NULs observed matching: %d (not demanded); pbkdf2 1-byte-key pairs not demanded: %d (chance collisions, salt-dependent)",
		rep.Unsupported, rep.MakeErrors, rep.NulEquiv, rep.ShortKeySkip)
	res.AddSub(core.Sub{Name: "tool-roundtrip", States: rep.Makes, Transitions: rep.Evaluations,
		Executions: rep.Evaluations, Outcomes: int64(len(rep.Outcomes)),
		Exhaustive: rep.Exhaustive && rep.MakeErrors == 0 && rep.Makes > 0,
		Bound:      rep.Bound, Note: note, Samples: rep.Samples, WallS: time.Since(start).Seconds()})
}

// C06 — loss accounting and NACK generation never blame a packet that
// arrived.
//
// BFS over arrival histories (in order, gaps of 1..33, late, duplicate,
// bursts, restarts, forward jumps) fed to the real readLoop through the pion
// TrackRemote shell, in three packet-rate regimes chosen on the virtual
// clock; the NACKs the loop sends upstream are captured at the RTCP writer
// and compared with the reference set of received positions; reception
// statistics are sampled (with and without reset) through the real
// sendUpRTCP and Cache.GetStats after every prefix.  Separate full
// enumerations cover ToBitmap and the downstream-triggered nackWriter.
package main

import (
	"encoding/json"
	"fmt"
	"math/bits"
	"os"
	"sort"
	"strings"
	"time"

	"github.com/pion/rtcp"

	"github.com/jech/galene/packetcache"

	"verif/core"
	"verif/fwd"
	"verif/media"
	"verif/seqx"
	"verif/vrt"
	"verif/vtime"
)

type op struct {
	Kind string `json:"k"`
	N    int    `json:"n,omitempty"`
}

type world struct {
	// the last packet received before the most recent gap opened, and the
	// number of packets that arrived since (it is still in the cache while
	// that number is far below the cache's capacity)
	preGap      int64
	preGapSince int
	w           *fwd.World
	start       uint16
	cursor      int64
	highest     int64
	received    map[int64]bool
	nacked      map[int64]int // position -> times NACKed by the receive loop
	holeAge     map[int64]int // in-order arrivals since the hole appeared
	regime      int           // packets threshold of the rate regime (2, 8, 24)
	lastE       int64         // last extended highest seqno reported
	haveE       bool
	restarted   bool
	steady      bool // no restart/jump since the hole bookkeeping started
	outcome     string
	nops        int
}

func fresh(start uint16, preroll int) func() seqx.World {
	return func() seqx.World {
		w := fwd.New(fwd.VP8, 16)
		vrt.TaskPolicy = func(string) vrt.Policy { return vrt.Drop }
		go w.Up.ReadLoop()
		x := &world{w: w, start: start, highest: -1, received: map[int64]bool{}, nacked: map[int64]int{},
			holeAge: map[int64]int{}, regime: 2, steady: true, preGap: -1}
		if preroll > 0 {
			// put the rate estimator in the wanted regime: preroll packets
			// in the last second (accumulated directly, as readLoop does per
			// packet), then one real packet after the interval ends
			x.feed(x.cursor)
			x.cursor++
			w.Up.RateAccumulate(preroll, 1000)
			vtime.Advance(time.Second)
			// one more packet makes the estimator swap intervals
			x.feed(x.cursor)
			x.cursor++
			x.regime = preroll / 50
			if x.regime > 24 {
				x.regime = 24
			}
			if x.regime < 2 {
				x.regime = 2
			}
			x.w.UpRTCP.Take()
		}
		return x
	}
}

func (w *world) Close() { w.w.Close() }

func (w *world) holes() []int64 {
	var h []int64
	for p := w.highest - 1; p >= 0 && p >= w.highest-40 && len(h) < 2; p-- {
		if !w.received[p] {
			h = append(h, p)
		}
	}
	return h
}

func (w *world) Ops() []seqx.Op {
	ops := []seqx.Op{op{Kind: "next"}, op{Kind: "skip", N: 1}, op{Kind: "skip", N: 2}, op{Kind: "skip", N: 17}, op{Kind: "skip", N: 33}}
	for j := range w.holes() {
		ops = append(ops, op{Kind: "late", N: j})
	}
	if w.highest >= 0 {
		ops = append(ops, op{Kind: "dup", N: 0}, op{Kind: "dup", N: 3})
	}
	ops = append(ops, op{Kind: "burst", N: 5}, op{Kind: "burst", N: 31}, op{Kind: "burst", N: 33})
	if w.nops < 3 {
		ops = append(ops, op{Kind: "burst", N: 255})
		// a long outage: the stream moves forward by thousands of packets
		// (still forwards modulo 2^16, possibly across the wrap)
		ops = append(ops, op{Kind: "skip", N: 5000})
	}
	if w.nops < 1 && !core.Quick() {
		ops = append(ops, op{Kind: "burst", N: 65536})
	}
	// a downstream receiver asks for the newest hole: the delayed writer
	// requests it upstream and counts it as expected
	if len(w.holes()) > 0 {
		ops = append(ops, op{Kind: "dnack"})
		// the same inside a reporting interval of its own: report, request,
		// report (the interval expects one packet and receives none)
		ops = append(ops, op{Kind: "dnack-interval"})
	}
	// a downstream receiver asks for the last packet that arrived before the
	// newest gap (it is in the cache: answered from there, nothing goes upstream)
	if w.preGap >= 0 && w.preGapSince < 16 && w.received[w.preGap] {
		ops = append(ops, op{Kind: "dnack-received"})
	}
	ops = append(ops, op{Kind: "stats", N: 1}, op{Kind: "stats", N: 0})
	ops = append(ops, op{Kind: "restart"}, op{Kind: "jump"})
	return ops
}

func viol(sig, what string) *core.Violation {
	return &core.Violation{Signature: "C06/" + sig, What: what}
}

func (w *world) seq(p int64) uint16 { return w.start + uint16(p) }

// feed delivers the packet of source position p to the real readLoop and
// checks the NACKs it triggers.
func (w *world) feed(p int64) *core.Violation {
	pkt := media.VP8{Hdr: media.Hdr{Seq: w.seq(p), TS: uint32(p) * 3000, Marker: true, PT: 96, SSRC: fwd.UpSSRC},
		X: true, I: true, M: true, PictureID: uint16(p) & 0x7FFF, S: true, Body: []byte{byte(p), 1, 2}}
	w.w.UpRTCP.Take()
	w.w.RTPIn.Feed(pkt.Bytes())
	first := !w.received[p]
	w.received[p] = true
	inorder := p == w.highest+1
	w.preGapSince++
	if p > w.highest+1 && w.highest >= 0 && w.received[w.highest] {
		w.preGap, w.preGapSince = w.highest, 0
	}
	if p > w.highest {
		// positions between become holes
		// only holes near the newest packet are ever looked at again (the
		// loss bitmap covers 32 packets)
		q0 := w.highest + 1
		if p-q0 > 64 {
			q0 = p - 64
			for q := range w.holeAge {
				if q < q0 {
					delete(w.holeAge, q)
				}
			}
		}
		for q := q0; q < p; q++ {
			if w.highest >= 0 {
				w.holeAge[q] = 0
			}
		}
		w.highest = p
	}
	if inorder && first {
		for q := range w.holeAge {
			w.holeAge[q]++
		}
	}
	delete(w.holeAge, p)
	for _, r := range w.w.UpRTCP.Take() {
		n, ok := r.(*rtcp.TransportLayerNack)
		if !ok {
			continue
		}
		for _, pair := range n.Nacks {
			for _, s := range pair.PacketList() {
				// translate to a position near the newest one
				d := int64(int16(s - w.seq(w.highest)))
				q := w.highest + d
				if d >= 0 {
					return viol("nack-at-or-beyond-newest", fmt.Sprintf("NACK for seqno %d, which is at or beyond the newest packet seen (%d)", s, w.seq(w.highest)))
				}
				if w.received[q] {
					return viol("nack-for-received-packet", fmt.Sprintf("NACK for seqno %d (position %d), which had already been received", s, q))
				}
				w.outcome += "+nack"
				w.nacked[q]++
				if w.nacked[q] > 1 {
					return viol("nack-repeated", fmt.Sprintf("the receive loop NACKed seqno %d (position %d) %d times", s, q, w.nacked[q]))
				}
			}
		}
	}
	// liveness: a hole followed by enough in-order arrivals must have been
	// requested (threshold: packets + unnacked + 2 further arrivals)
	if w.steady {
		need := w.regime + 4 + 2
		for q, age := range w.holeAge {
			if age >= need && w.nacked[q] == 0 && !w.received[q] && w.highest-q < 32-4 {
				return viol("missing-packet-never-requested", fmt.Sprintf("seqno %d (position %d) went missing, %d packets arrived in order after it (rate regime: late by %d packets) and it was never NACKed", w.seq(q), q, age, w.regime))
			}
		}
	}
	return nil
}

func (w *world) sample(reset bool) *core.Violation {
	check := func(s packetcache.Stats, how string) *core.Violation {
		if s.Received > s.Expected {
			return viol("received-exceeds-expected/interval", fmt.Sprintf("%s: received %d > expected %d", how, s.Received, s.Expected))
		}
		if s.TotalReceived > s.TotalExpected {
			return viol("received-exceeds-expected/total", fmt.Sprintf("%s: total received %d > total expected %d", how, s.TotalReceived, s.TotalExpected))
		}
		e := int64(s.ESeqno)
		if w.haveE && e < w.lastE && !w.restarted {
			return viol("extended-seqno-decreased", fmt.Sprintf("%s: extended highest seqno went from %d to %d without a restart", how, w.lastE, e))
		}
		w.lastE, w.haveE, w.restarted = e, true, false
		return nil
	}
	if !reset {
		return check(w.w.Up.Cache().GetStats(false), "GetStats(false)")
	}
	before := w.w.Up.Cache().GetStats(false)
	w.w.UpRTCP.Take()
	if err := w.w.Up.SendUpRTCP(); err != nil {
		return viol("sendUpRTCP-error", err.Error())
	}
	if v := check(before, "receiver report"); v != nil {
		return v
	}
	for _, r := range w.w.UpRTCP.Take() {
		rr, ok := r.(*rtcp.ReceiverReport)
		if !ok {
			continue
		}
		for _, rep := range rr.Reports {
			lost := uint32(0)
			if before.TotalExpected > before.TotalReceived {
				lost = before.TotalExpected - before.TotalReceived
			}
			if rep.TotalLost != lost {
				return viol("total-lost-inconsistent", fmt.Sprintf("receiver report says %d lost in total, the statistics say %d", rep.TotalLost, lost))
			}
			if before.Expected > 0 && before.Expected >= before.Received {
				want := (before.Expected - before.Received) * 256 / before.Expected
				if want > 255 {
					want = 255
				}
				if uint32(rep.FractionLost) != want {
					return viol("fraction-inconsistent", fmt.Sprintf("receiver report fraction %d, expected %d (%d of %d lost)", rep.FractionLost, want, before.Expected-before.Received, before.Expected))
				}
			}
			if int64(rep.LastSequenceNumber) != int64(before.ESeqno) {
				return viol("eseqno-inconsistent", "receiver report and statistics disagree on the extended highest seqno")
			}
		}
	}
	return nil
}

func (w *world) Apply(x seqx.Op) *core.Violation {
	o := x.(op)
	w.nops++
	w.outcome = o.Kind
	switch o.Kind {
	case "next":
		p := w.cursor
		w.cursor++
		return w.feed(p)
	case "skip":
		w.cursor += int64(o.N)
	case "late":
		h := w.holes()
		if o.N < len(h) {
			return w.feed(h[o.N])
		}
	case "dup":
		p := w.highest - int64(o.N)
		if p >= 0 && w.received[p] {
			return w.feed(p)
		}
	case "burst":
		for i := 0; i < o.N; i++ {
			p := w.cursor
			w.cursor++
			if v := w.feed(p); v != nil {
				return v
			}
		}
		w.gc()
	case "dnack-interval":
		if v := w.sample(true); v != nil {
			return v
		}
		if v := w.Apply(op{Kind: "dnack"}); v != nil {
			return v
		}
		w.nops--
		return w.sample(true)
	case "dnack-received":
		if w.preGap < 0 || !w.received[w.preGap] {
			return nil
		}
		q := w.preGap
		buf := make([]byte, packetcache.BufSize)
		w.w.UpRTCP.Take()
		vrt.TaskPolicy = func(string) vrt.Policy { return vrt.Queue }
		n := w.w.Up.UpTrack().GetPacket(w.seq(q), buf, true)
		for len(vrt.Pending()) > 0 {
			vrt.TakeTask(0).Fn()
		}
		for _, r := range w.w.UpRTCP.Take() {
			if nk, ok := r.(*rtcp.TransportLayerNack); ok {
				for _, pair := range nk.Nacks {
					for _, sq := range pair.PacketList() {
						if sq == w.seq(q) {
							return viol("nack-for-received-packet", fmt.Sprintf("a receiver asked for seqno %d, which arrived %d packets ago (%d numbers behind the newest, across a gap); GetPacket returned %d bytes and the packet was requested upstream although it had been received", sq, w.preGapSince, w.highest-q, n))
						}
					}
				}
			}
		}
		w.outcome = fmt.Sprintf("dnack-received/%v", n > 0)
	case "dnack":
		h := w.holes()
		if len(h) == 0 {
			return nil
		}
		q := h[0]
		buf := make([]byte, packetcache.BufSize)
		w.w.UpRTCP.Take()
		vrt.TaskPolicy = func(string) vrt.Policy { return vrt.Queue }
		if n := w.w.Up.UpTrack().GetPacket(w.seq(q), buf, true); n != 0 {
			return viol("missing-packet-in-cache", fmt.Sprintf("GetPacket returned %d bytes for seqno %d, which never arrived", n, w.seq(q)))
		}
		for len(vrt.Pending()) > 0 {
			vrt.TakeTask(0).Fn()
		}
		for _, r := range w.w.UpRTCP.Take() {
			if n, ok := r.(*rtcp.TransportLayerNack); ok {
				for _, pair := range n.Nacks {
					for _, sq := range pair.PacketList() {
						d := int64(int16(sq - w.seq(w.highest)))
						if d >= 0 {
							return viol("nack-at-or-beyond-newest", fmt.Sprintf("downstream-triggered NACK for seqno %d, at or beyond the newest packet seen", sq))
						}
						if w.received[w.highest+d] {
							return viol("nack-for-received-packet", fmt.Sprintf("downstream-triggered NACK for seqno %d, which had already been received", sq))
						}
					}
				}
			}
		}
		w.outcome = "dnack"
	case "stats":
		return w.sample(o.N == 1)
	case "restart":
		// the stream jumps backwards by more than 256 packets: positions
		// are renumbered (the past is forgotten)
		w.start = w.seq(w.cursor) - 300
		w.cursor, w.highest = 0, -1
		w.received, w.nacked, w.holeAge = map[int64]bool{}, map[int64]int{}, map[int64]int{}
		w.restarted = true
		w.steady = false
		w.preGap = -1
		p := w.cursor
		w.cursor++
		return w.feed(p)
	case "jump":
		w.start = w.seq(w.cursor) + 40000
		w.cursor, w.highest = 0, -1
		w.received, w.nacked, w.holeAge = map[int64]bool{}, map[int64]int{}, map[int64]int{}
		w.restarted = true // a forward jump of >=32768 is a backward jump modulo 2^16
		w.steady = false
		p := w.cursor
		w.cursor++
		return w.feed(p)
	}
	return nil
}

func (w *world) gc() {
	for p := range w.received {
		if w.highest-p > 300 {
			delete(w.received, p)
		}
	}
	for p := range w.nacked {
		if w.highest-p > 300 {
			delete(w.nacked, p)
		}
	}
	for p := range w.holeAge {
		if w.highest-p > 300 {
			delete(w.holeAge, p)
		}
	}
}

func (w *world) Canon() string {
	var b strings.Builder
	b.WriteString(w.w.Up.Cache().VerifStats())
	fmt.Fprintf(&b, "#c%d h%d r%v s%v", w.cursor-w.highest, w.seq(w.highest), w.restarted, w.steady)
	for p := w.highest; p >= 0 && p >= w.highest-36; p-- {
		fmt.Fprintf(&b, "|%v%d%d", w.received[p], w.nacked[p], w.holeAge[p])
	}
	if w.nops < 3 {
		fmt.Fprintf(&b, "#n%d", w.nops)
	}
	if w.preGap >= 0 && w.preGapSince < 16 {
		d := w.highest - w.preGap
		if d > 64 {
			d = 64 + int64(bits.Len64(uint64(d)))
		}
		fmt.Fprintf(&b, "#g%d,%d", d, w.preGapSince)
	}
	return b.String()
}

func (w *world) Outcome() string { return w.outcome }

// ---------------------------------------------------------------------------
// ToBitmap: full enumeration of sorted seqno lists

func toBitmapCheck(res *core.Result) core.Sub {
	sub := core.Sub{Name: "tobitmap", Exhaustive: true}
	var outc core.Outcomes
	width := core.Pick(18, 22)
	for _, base := range []uint16{0, 42, 65530, 65535, 32760} {
		for mask := 1; mask < 1<<width; mask++ {
			var list []uint16
			for i := 0; i < width; i++ {
				if mask&(1<<i) != 0 {
					list = append(list, base+uint16(i)+uint16(i/6)*3)
				}
			}
			orig := append([]uint16(nil), list...)
			var covered []uint16
			pairs := 0
			for len(list) > 0 {
				f, bm, rest := packetcache.ToBitmap(list)
				pairs++
				np := rtcp.NackPair{PacketID: f, LostPackets: rtcp.PacketBitmap(bm)}
				got := np.PacketList()
				n := len(list) - len(rest)
				if n < 1 || len(got) != n {
					res.Violate(core.Violation{Signature: "C06/tobitmap/not-a-prefix", What: fmt.Sprintf("ToBitmap(%v) = (%d,%#x) covers %v and leaves %v", list, f, bm, got, rest)})
					return sub
				}
				for i := 0; i < n; i++ {
					if got[i] != list[i] {
						res.Violate(core.Violation{Signature: "C06/tobitmap/wrong-seqnos", What: fmt.Sprintf("ToBitmap(%v) = (%d,%#x) names %v", list, f, bm, got)})
						return sub
					}
				}
				covered = append(covered, got...)
				list = rest
			}
			if fmt.Sprint(covered) != fmt.Sprint(orig) {
				res.Violate(core.Violation{Signature: "C06/tobitmap/lost-seqnos", What: fmt.Sprintf("packing %v yields %v", orig, covered)})
				return sub
			}
			sub.Executions++
			outc.Add(fmt.Sprint(pairs, len(orig)))
		}
	}
	sub.States, sub.Transitions, sub.Outcomes = sub.Executions, sub.Executions, outc.N()
	sub.Bound = fmt.Sprintf("all non-empty subsets of a %d-element increasing window (gaps up to 3) x 5 base seqnos incl. wrap", width)
	sub.Samples = []any{"[65530 65531 65533 ...] packed into NACK pairs and expanded again"}
	return sub
}

// ---------------------------------------------------------------------------
// nackWriter: downstream-triggered upstream NACKs are filtered

func nackWriterCheck(res *core.Result) core.Sub {
	sub := core.Sub{Name: "nackwriter-filter", Exhaustive: true}
	var outc core.Outcomes
	// a cache holding positions 0..11 except the holes; keyframe at kf
	holesets := [][]int{{}, {5}, {3, 7}, {9, 10}, {1}}
	for _, start := range []uint16{100, 65530} {
		for _, holes := range holesets {
			for _, kf := range []int{-1, 0, 6} {
				// every subset of requested positions from {-2(before start), 1, 3, 5, 7, 9, 10, 11, 12(beyond newest)}
				cand := []int{-2, 1, 3, 5, 7, 9, 10, 11, 12}
				for mask := 1; mask < 1<<len(cand); mask++ {
					w := fwd.New(fwd.VP8, 32)
					isHole := map[int]bool{}
					for _, h := range holes {
						isHole[h] = true
					}
					for p := 0; p < 12; p++ {
						if isHole[p] {
							continue
						}
						pkt := media.VP8{Hdr: media.Hdr{Seq: start + uint16(p), TS: 1, Marker: true, PT: 96, SSRC: fwd.UpSSRC}, S: true, Body: []byte{1}}
						w.Up.Cache().Store(start+uint16(p), 1, p == kf, true, pkt.Bytes())
					}
					var asked []int
					buf := make([]byte, packetcache.BufSize)
					vrt.TaskPolicy = func(string) vrt.Policy { return vrt.Queue }
					for i, c := range cand {
						if mask&(1<<i) != 0 {
							asked = append(asked, c)
							w.Up.UpTrack().GetPacket(start+uint16(c), buf, true)
						}
					}
					// the first requested hole arrives before the delayed writer runs
					// (odd masks only, so both orders are covered)
					arrived := map[int]bool{}
					if mask&1 == 1 {
						for _, c := range asked {
							if c >= 0 && c < 12 && isHole[c] {
								pkt := media.VP8{Hdr: media.Hdr{Seq: start + uint16(c), TS: 1, Marker: true, PT: 96, SSRC: fwd.UpSSRC}, S: true, Body: []byte{1}}
								w.Up.Cache().Store(start+uint16(c), 1, false, true, pkt.Bytes())
								arrived[c] = true
								break
							}
						}
					}
					w.UpRTCP.Take()
					for len(vrt.Pending()) > 0 {
						vrt.TakeTask(0).Fn()
					}
					sent := map[uint16]int{}
					for _, r := range w.UpRTCP.Take() {
						if n, ok := r.(*rtcp.TransportLayerNack); ok {
							for _, pr := range n.Nacks {
								for _, s := range pr.PacketList() {
									sent[s]++
								}
							}
						}
					}
					sub.Executions++
					cut := kf
					if kf < 0 {
						cut = 11 - 256
					}
					for _, c := range asked {
						s := start + uint16(c)
						inCache := c >= 0 && c < 12 && !isHole[c]
						switch {
						case arrived[c] && sent[s] > 0:
							res.Violate(core.Violation{Signature: "C06/nackwriter/received-packet-requested", What: fmt.Sprintf("seqno %d arrived after a downstream receiver asked for it and before the delayed NACK was written, and was requested from the publisher all the same", s)})
						case arrived[c]:
						case inCache && sent[s] > 0:
							res.Violate(core.Violation{Signature: "C06/nackwriter/cached-packet-requested", What: fmt.Sprintf("a downstream NACK for seqno %d, which is in the cache, was forwarded to the publisher", s)})
						case c < cut && sent[s] > 0:
							res.Violate(core.Violation{Signature: "C06/nackwriter/before-cutoff-requested", What: fmt.Sprintf("a downstream NACK for seqno %d, before the cut-off (keyframe at %d), was forwarded upstream", s, start+uint16(cut))})
						case !inCache && c >= cut && sent[s] != 1:
							res.Violate(core.Violation{Signature: "C06/nackwriter/lost-or-duplicated", What: fmt.Sprintf("a downstream NACK for missing seqno %d was forwarded upstream %d times (asked %v, holes %v, keyframe %d)", s, sent[s], asked, holes, kf)})
						}
					}
					for s := range sent {
						found := false
						for _, c := range asked {
							if start+uint16(c) == s {
								found = true
							}
						}
						if !found {
							res.Violate(core.Violation{Signature: "C06/nackwriter/unrequested-seqno", What: fmt.Sprintf("upstream NACK names seqno %d which nobody asked for", s)})
						}
					}
					outc.Add(fmt.Sprint(len(sent), len(asked)))
					w.Close()
				}
			}
		}
	}
	sub.States, sub.Transitions, sub.Outcomes = sub.Executions, sub.Executions, outc.N()
	sub.Bound = "start seqnos(2) x hole sets(5) x keyframe positions(3) x all non-empty subsets of 9 requested positions (odd subsets: the first requested hole arrives before the delayed writer runs)"
	sub.Samples = []any{"cache 100..111 with holes {3,7}, keyframe at 106, downstream NACKs for {101,103,107,112}"}
	return sub
}

// ---------------------------------------------------------------------------

type cfgDesc struct {
	start   uint16
	preroll int
}

func allConfigs() []cfgDesc {
	var cs []cfgDesc
	for _, s := range core.Pick([]uint16{0, 65500, 32700}, []uint16{0, 1, 65500, 65535, 32700, 32767}) {
		for _, pr := range []int{0, 400, 1300} {
			cs = append(cs, cfgDesc{s, pr})
		}
	}
	return cs
}

func cfgFor(c cfgDesc) seqx.Config {
	// every execution replays the pre-roll that establishes the rate regime
	// (400 or 1300 packets): those configurations go one level less deep
	d := core.Pick(5, 7)
	if c.preroll > 0 {
		d = core.Pick(4, 6)
	}
	return seqx.Config{Name: fmt.Sprintf("readloop/start%d/rate%d", c.start, c.preroll), Fresh: fresh(c.start, c.preroll),
		MaxDepth: d, Parallel: 1}
}

func main() {
	t0 := time.Now()
	o := core.ParseFlags(100, 1500)
	res := &core.Result{Property: "C06", Tier: o.Tier,
		Technique: "explicit-state BFS over arrival histories through the real readLoop (pion TrackRemote shell) with NACK capture at the RTCP writer and statistics sampling through the real sendUpRTCP; full enumeration for ToBitmap and nackWriter"}
	if o.Replay != "" {
		replay(o.Replay)
		return
	}
	if o.Shard < 0 {
		core.RunShards(res, core.NCPU(), nil, nil)
		res.Assume("rate regime fixed per configuration on the virtual clock (late by 2, 8 or 24 packets); liveness demanded only for holes followed by packets+6 in-order arrivals while no restart/jump occurred")
		res.Assume("upstream NACKs triggered by a downstream receiver (GetPacket with nack=true -> nackWriter) are checked only for what the mechanism promises: cached numbers and numbers before the cut-off are not forwarded, packing loses nothing")
		core.Finish(res, t0)
	}
	agg := core.Sub{Name: "readloop", Exhaustive: true, Bound: fmt.Sprintf("depth<=%d (low rate) / %d (rate regimes with a 400/1300-packet pre-roll) x %d configurations (start seqno x rate regime)", core.Pick(5, 7), core.Pick(4, 6), len(allConfigs()))}
	job := 0
	for _, c := range allConfigs() {
		w0 := cfgFor(c).Fresh()
		first := w0.Ops()
		w0.(*world).Close()
		for _, f := range first {
			job++
			if job%o.Shards != o.Shard || !core.Want("readloop") {
				continue
			}
			cf := cfgFor(c)
			cf.Prefix = []seqx.Op{f}
			s := seqx.Explore(cf, res)
			agg.States += s.States
			agg.Transitions += s.Transitions
			agg.Executions += s.Executions
			agg.Exhaustive = agg.Exhaustive && s.Exhaustive
			if s.Outcomes > agg.Outcomes {
				agg.Outcomes = s.Outcomes
			}
			if len(agg.Samples) < 1 {
				agg.Samples = s.Samples
			}
		}
	}
	if agg.Executions > 0 {
		res.AddSub(agg)
	}
	if o.Shard == (len(allConfigs())+0)%o.Shards && core.Want("tobitmap") {
		res.AddSub(toBitmapCheck(res))
	}
	if o.Shard == (len(allConfigs())+1)%o.Shards && core.Want("nackwriter") {
		res.AddSub(nackWriterCheck(res))
	}
	core.Finish(res, t0)
}

func replay(path string) {
	data, err := os.ReadFile(path)
	if err != nil {
		fmt.Println(err)
		os.Exit(2)
	}
	var a struct {
		Replay struct {
			Config string `json:"config"`
			Ops    []op   `json:"ops"`
		} `json:"replay"`
	}
	if err := json.Unmarshal(data, &a); err != nil {
		fmt.Println(err)
		os.Exit(2)
	}
	var start, rate int
	fmt.Sscanf(a.Replay.Config, "readloop/start%d/rate%d", &start, &rate)
	ops := make([]seqx.Op, len(a.Replay.Ops))
	for i, x := range a.Replay.Ops {
		ops[i] = x
	}
	if v := seqx.Replay(cfgFor(cfgDesc{uint16(start), rate}), ops); v != nil {
		fmt.Printf("VIOLATION property=C06 replay=%s\n  %s\n", path, v.What)
		os.Exit(1)
	}
	fmt.Println("replay: no violation")
	_ = sort.Ints
}

package main

import (
	"fmt"
	"strings"

	"verif/core"
	"verif/seqx"
	"verif/sig"
)

// Moderation against a target that changes group.  A moderation command is
// handled in two halves: the operator's loop checks the permission and the
// membership and queues an action for the target, and the target's own loop
// applies it later.  Here the target's loop is driven lazily: between the
// two halves the target may handle its own messages (leave, join another
// group, come back).  Explicit-state BFS over operator commands, target
// messages and target drains.  Oracle: the permissions the server holds for
// the target in its current group are exactly those its credentials gave it
// when it joined that group, changed only by commands of operators OF THAT
// GROUP issued while it was a member of it; a command of an operator of
// group g never changes what the target may do in group h.

type sop struct {
	Kind string `json:"k"`
}

type sworld struct {
	w       *sig.World
	pan     string
	in      string          // group the target is in ("" = none)
	epoch   int             // number of joins of the target so far
	want    map[string]bool // justified permissions in the current group
	pending []pendingCmd    // commands queued for the target, not yet applied
	outcome string
	role    string
}

type pendingCmd struct {
	kind  string
	group string
	epoch int
}

var targetPerms = map[string][]string{"g": {"present", "message"}, "h": {"present", "message"}}

func swFresh() seqx.World { return swFreshAs("speaker")() }

func swFreshAs(role string) func() seqx.World {
	return func() seqx.World { return swNew(role) }
}

func swNew(role string) seqx.World {
	w, pan := sig.Setup(role, "joined", false) // c0 in g; c1 alice (op of g); c2 bob
	s := &sworld{w: w, pan: pan, in: "g", epoch: 1, want: map[string]bool{}, role: role}
	for _, p := range w.Clients[0].V.Permissions() {
		s.want[p] = true
	}
	return s
}

func (w *sworld) Close() { w.w.Close() }

func (w *sworld) Ops() []seqx.Op {
	if w.pan != "" || w.w.Clients[0].V.Closed {
		return nil
	}
	var ops []seqx.Op
	for _, k := range []string{"op", "unop", "present", "unpresent", "shutup", "unshutup"} {
		ops = append(ops, sop{"cmd:" + k})
	}
	if w.in != "" {
		ops = append(ops, sop{"leave"})
	} else {
		ops = append(ops, sop{"join:g"}, sop{"join:h"})
	}
	if w.w.Clients[0].V.Signalled() {
		ops = append(ops, sop{"drain"})
	}
	return ops
}

func apply(perms map[string]bool, kind string) {
	switch kind {
	case "op":
		perms["op"] = true
		perms["record"] = true // allow-recording is on in g
	case "unop":
		delete(perms, "op")
		delete(perms, "record")
	case "present":
		perms["present"] = true
	case "unpresent":
		delete(perms, "present")
	case "shutup":
		delete(perms, "message")
	case "unshutup":
		perms["message"] = true
	}
}

func (w *sworld) Apply(x seqx.Op) *core.Violation {
	o := x.(sop)
	w.outcome = o.Kind
	var obs sig.Obs
	kv := strings.SplitN(o.Kind, ":", 2)
	switch kv[0] {
	case "cmd":
		obs = w.w.Send(1, sig.Msg{"type": "useraction", "kind": kv[1], "source": "c1", "username": "alice", "dest": "c0"})
		// accepted only if the target is a member of the operator's group now
		if w.in == "g" {
			w.pending = append(w.pending, pendingCmd{kv[1], "g", w.epoch})
		}
	case "leave":
		obs = w.w.Send(0, sig.Msg{"type": "join", "kind": "leave", "group": w.in})
		w.in = ""
		w.want = map[string]bool{}
	case "join":
		obs = w.w.Send(0, sig.Join(kv[1], w.role, "p"))
		w.in = kv[1]
		w.epoch++
		w.want = map[string]bool{}
	case "drain":
		// the target's loop handles everything queued for it (the actions
		// that handling queues in turn included)
		for n := 0; n < 50 && w.w.Clients[0].V.Signalled() && !w.w.Clients[0].V.Closed; n++ {
			o1 := w.w.Drain(0)
			if o1.Panic != "" {
				obs = o1
				break
			}
		}
		// every queued command has now been handled: those issued by an
		// operator of the group the target is in now take effect, in order
		// (a command that overtakes a leave and a re-join of the same group
		// is still a command of that group's operator on a member of it)
		for _, p := range w.pending {
			if p.group == w.in {
				apply(w.want, p.kind)
			}
		}
		w.pending = nil
	}
	if obs.Panic != "" {
		return &core.Violation{Signature: "C11/panic/" + sig.PanicSite(obs.Panic) + "/moderation-vs-switch", What: obs.Panic}
	}
	// the other members' loops are eager
	for n := 0; n < 100; n++ {
		s := w.w.Signalled()
		k := -1
		for _, i := range s {
			if i != 0 {
				k = i
				break
			}
		}
		if k < 0 {
			break
		}
		if so := w.w.Drain(k); so.Panic != "" {
			return &core.Violation{Signature: "C11/panic/" + sig.PanicSite(so.Panic) + "/moderation-vs-switch", What: so.Panic}
		}
	}
	if kv[0] == "join" {
		// the join itself is synchronous: the credentials' permissions hold from now on
		for _, p := range w.w.Clients[0].V.Permissions() {
			w.want[p] = true
		}
		if g := w.w.Clients[0].V.Group(); g == nil || g.Name() != w.in {
			w.in = ""
			w.want = map[string]bool{}
		}
		return nil
	}
	if w.w.Clients[0].V.Closed {
		return nil
	}
	// compare only when nothing is in flight for the target
	if w.w.Clients[0].V.Signalled() || len(w.pending) > 0 {
		return nil
	}
	got := map[string]bool{}
	for _, p := range w.w.Clients[0].V.Permissions() {
		got[p] = true
	}
	if w.in == "" {
		return nil
	}
	for _, p := range []string{"op", "record", "present", "message"} {
		if got[p] != w.want[p] {
			verb := "holds"
			if !got[p] {
				verb = "has lost"
			}
			if w.epoch == 1 {
				return &core.Violation{Signature: "C11/moderation-without-effect/" + p,
					What: fmt.Sprintf("the target (logged in as %s) never left group g and %s %q, although its credentials and the operator's commands handled so far give %v: a moderation command was acknowledged and announced but did not change what the target may do", w.role, verb, p, keys(w.want))}
			}
			return &core.Violation{Signature: "C11/moderation-crosses-groups/" + p,
				What: fmt.Sprintf("the target is a member of group %s and %s %q there, although its credentials for %s and the commands of that group's operators during this membership give %v: a command issued by an operator of another group was applied to it here", w.in, verb, p, w.in, keys(w.want))}
		}
	}
	return nil
}

func (w *sworld) Canon() string {
	var pend []string
	for _, p := range w.pending {
		pend = append(pend, p.kind+"@"+p.group)
	}
	return fmt.Sprint(w.w.Canon(), "|", w.in, "|", keys(w.want), "|", pend)
}

func (w *sworld) Outcome() string { return w.outcome }

// the same with a target whose configured permission list names permissions twice
func dupConfig() seqx.Config {
	return seqx.Config{Name: "moderation-vs-group-switch/duplicate-permissions", Fresh: swFreshAs("dupes"), MaxDepth: core.Pick(4, 6), Parallel: 1}
}

func switchConfig() seqx.Config {
	return seqx.Config{Name: "moderation-vs-group-switch", Fresh: swFresh, MaxDepth: core.Pick(5, 7), Parallel: 1}
}

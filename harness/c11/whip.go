package main

import (
	"encoding/base64"
	"fmt"
	"net/http/httptest"
	"os"
	"path/filepath"
	"strings"

	"github.com/jech/galene/group"
	"github.com/jech/galene/rtpconn"
	"github.com/jech/galene/webserver"

	"verif/core"
	"verif/sig"
)

// WHIP session resource: once a session has been created with a bearer token,
// every later request on its URL has to present the same token.  A live
// WhipClient with a token is a member of group g (as the WHIP endpoint leaves
// it after a successful POST); every method x Authorization header x Origin is
// sent to /group/g/.whip/<id> through the routes registered by the real
// server.  Without the right token nothing may be answered with a 2xx and the
// session must still exist afterwards.

func whipSessionCheck(res *core.Result) core.Sub {
	sub := core.Sub{Name: "whip-session-token", Exhaustive: true}
	var outc core.Outcomes
	w := sig.NewWorld(sig.FixtureGroups(false, 0), 1)
	defer w.Close()
	static := filepath.Join(sig.BaseDir(), "static")
	os.MkdirAll(static, 0700)
	mux, err := webserver.VerifC12Mux(static)
	if err != nil {
		res.Violate(core.Violation{Signature: "HARNESS-FAULT", What: "mux: " + err.Error()})
		return sub
	}
	id := base64.RawURLEncoding.EncodeToString([]byte("whip-client-0001"))
	const tok = "tok-whip-1"
	ensure := func() error {
		g, err := group.Add("g", nil)
		if err != nil {
			return err
		}
		if g.GetClient(id) != nil {
			return nil
		}
		c := rtpconn.NewWhipClient(g, id, tok, nil)
		u := "speaker"
		_, err = group.AddClient("g", c, group.ClientCredentials{Username: &u, Password: "p"})
		return err
	}
	oid, err := webserver.VerifC12Obfuscate(id)
	if err != nil {
		res.Violate(core.Violation{Signature: "HARNESS-FAULT", What: "obfuscate: " + err.Error()})
		return sub
	}
	url := "/group/g/.whip/" + oid
	auths := []string{"", "Bearer", "Bearer ", "Bearer tok-whip-", "Bearer tok-whip-12", "Bearer tok-whip-2", "Basic dG9rLXdoaXAtMQ==", "tok-whip-1", "Bearer " + strings.ToUpper(tok), "Bearer " + tok}
	for _, method := range []string{"OPTIONS", "GET", "HEAD", "POST", "PUT", "PATCH", "DELETE", "CONNECT", "TRACE"} {
		for _, auth := range auths {
			for _, origin := range []string{"", "https://elsewhere.example"} {
				for _, ctype := range []string{"", "application/trickle-ice-sdpfrag"} {
					if err := ensure(); err != nil {
						res.Violate(core.Violation{Signature: "HARNESS-FAULT", What: "whip member: " + err.Error()})
						return sub
					}
					sub.Executions++
					r := httptest.NewRequest(method, url, strings.NewReader(""))
					if auth != "" {
						r.Header.Set("Authorization", auth)
					}
					if origin != "" {
						r.Header.Set("Origin", origin)
					}
					if ctype != "" {
						r.Header.Set("Content-Type", ctype)
					}
					rr := httptest.NewRecorder()
					pan := ""
					func() {
						defer func() {
							if x := recover(); x != nil {
								pan = fmt.Sprint(x)
							}
						}()
						mux.ServeHTTP(rr, r)
					}()
					right := auth == "Bearer "+tok
					desc := fmt.Sprintf("%s %s with Authorization %q, Origin %q on a WHIP session created with bearer token %q", method, "/group/g/.whip/<id>", auth, origin, tok)
					if pan != "" {
						res.Violate(core.Violation{Signature: "C11/panic/whip-session", Sub: sub.Name, What: desc + ": " + pan})
						continue
					}
					outc.Add(fmt.Sprint(method, right, rr.Code))
					if right {
						continue
					}
					g := group.Get("g")
					gone := g == nil || g.GetClient(id) == nil
					if rr.Code < 300 || gone {
						what := fmt.Sprintf("answered %d", rr.Code)
						if h := rr.Header().Get("Access-Control-Allow-Methods"); h != "" {
							what += " (Access-Control-Allow-Methods: " + h + ")"
						}
						if gone {
							what += " and the session is gone"
						}
						res.Violate(core.Violation{Signature: "C11/whip-session/served-without-its-token/" + method, Sub: sub.Name,
							What:   desc + ": " + what,
							Replay: map[string]any{"sub": "whip-session-token"}})
					}
				}
			}
		}
	}
	sub.States, sub.Transitions, sub.Outcomes = sub.Executions, sub.Executions, outc.N()
	sub.Bound = fmt.Sprintf("9 methods x %d Authorization headers x 2 origins x 2 content types", len(auths))
	return sub
}

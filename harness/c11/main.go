// C11 — every privileged action requires its permission; non-members hold
// none.
//
// Engine D, full product: actor role x membership state (never joined, join
// refused for each cause, joined, left, kicked, in another group, permission
// revoked and notified) x every privileged message kind, each executed
// through the real handleClientMessage/handleAction; the observed side effect
// (anything other than a refusal written to the sender: other clients'
// output, group state, token file, connections, recorder membership) is
// compared with the reference "member AND holds the required permission".
// Token delegation, token editing/listing scope and concurrent revocation are
// separate sub-checks.
package main

import (
	"encoding/json"
	"fmt"
	"os"
	"slices"
	"sort"
	"strings"
	"time"

	"github.com/jech/galene/group"
	"github.com/jech/galene/token"

	"verif/core"
	"verif/seqx"
	"verif/sig"
	"verif/vtime"
)

type action struct {
	Name string
	Need []string // permissions required (all of them); nil = membership only
	Msg  func() sig.Msg
}

func ua(kind, dest string) func() sig.Msg {
	return func() sig.Msg {
		return sig.Msg{"type": "useraction", "kind": kind, "source": "c0", "dest": dest, "value": "x"}
	}
}

func ga(kind string, value any) func() sig.Msg {
	return func() sig.Msg {
		m := sig.Msg{"type": "groupaction", "kind": kind, "source": "c0"}
		if value != nil {
			m["value"] = value
		}
		return m
	}
}

func tokenValue(perms []string, grp string, expires bool, username string) map[string]any {
	v := map[string]any{"group": grp, "permissions": perms}
	if expires {
		v["expires"] = vtime.Base.Add(2 * time.Hour).Format(time.RFC3339)
	}
	if username != "" {
		v["username"] = username
	}
	return v
}

func actions() []action {
	return []action{
		{"offer", []string{"present"}, func() sig.Msg {
			return sig.Msg{"type": "offer", "id": "s1", "label": "camera", "source": "c0", "sdp": sig.OfferSDP("a")}
		}},
		{"chat", []string{"message"}, func() sig.Msg { return sig.Msg{"type": "chat", "source": "c0", "value": "hi"} }},
		{"chat-private", []string{"message"}, func() sig.Msg { return sig.Msg{"type": "chat", "source": "c0", "dest": "c2", "value": "hi"} }},
		{"caption", []string{"caption"}, func() sig.Msg { return sig.Msg{"type": "chat", "kind": "caption", "source": "c0", "value": "hi"} }},
		{"caption-private", []string{"caption"}, func() sig.Msg {
			return sig.Msg{"type": "chat", "kind": "caption", "source": "c0", "dest": "c2", "value": "hi"}
		}},
		{"usermessage-broadcast", []string{"message"}, func() sig.Msg {
			return sig.Msg{"type": "usermessage", "kind": "x", "source": "c0", "value": "hi"}
		}},
		{"usermessage", []string{"message"}, func() sig.Msg {
			return sig.Msg{"type": "usermessage", "kind": "x", "source": "c0", "dest": "c2", "value": "hi"}
		}},
		{"op", []string{"op"}, ua("op", "c2")},
		{"unop", []string{"op"}, ua("unop", "c1")},
		{"present", []string{"op"}, ua("present", "c2")},
		{"unpresent", []string{"op"}, ua("unpresent", "c2")},
		{"shutup", []string{"op"}, ua("shutup", "c2")},
		{"unshutup", []string{"op"}, ua("unshutup", "c2")},
		{"kick", []string{"op"}, ua("kick", "c2")},
		{"identify", []string{"op"}, ua("identify", "c2")},
		{"op-self", []string{"op"}, ua("op", "c0")},
		{"present-self", []string{"op"}, ua("present", "c0")},
		{"setdata-self", nil, func() sig.Msg {
			return sig.Msg{"type": "useraction", "kind": "setdata", "source": "c0", "dest": "c0", "value": map[string]any{"k": "v"}}
		}},
		{"setdata-other", []string{"__never"}, func() sig.Msg {
			return sig.Msg{"type": "useraction", "kind": "setdata", "source": "c0", "dest": "c2", "value": map[string]any{"k": "v"}}
		}},
		{"lock", []string{"op"}, ga("lock", "m")},
		{"unlock", []string{"op"}, ga("unlock", nil)},
		{"clearchat", []string{"op"}, ga("clearchat", nil)},
		{"group-setdata", []string{"op"}, ga("setdata", map[string]any{"k": "v"})},
		{"subgroups", []string{"op"}, ga("subgroups", nil)},
		{"record", []string{"record"}, ga("record", nil)},
		{"unrecord", []string{"record"}, ga("unrecord", nil)},
		{"maketoken", []string{"token"}, ga("maketoken", tokenValue([]string{}, "g", true, ""))},
		{"edittoken", []string{"op", "token"}, ga("edittoken", map[string]any{"token": "tok-g", "expires": vtime.Base.Add(3 * time.Hour).Format(time.RFC3339)})},
		{"listtokens", []string{"op", "token"}, ga("listtokens", nil)},
		{"request", nil, func() sig.Msg {
			return sig.Msg{"type": "request", "request": map[string]any{"": []any{"audio", "video"}}}
		}},
	}
}

// refusal reports whether a message written to the sender is a refusal (or
// otherwise carries no privileged effect).
func refusal(m sig.Msg) bool {
	switch m["type"] {
	case "usermessage":
		if e, _ := m["error"].(string); e != "" {
			return true
		}
		switch m["kind"] {
		case "error", "warning", "kicked":
			return true
		}
	case "abort", "__close", "pong", "ping":
		return true
	case "joined":
		return m["kind"] == "fail" || m["kind"] == "leave"
	}
	return false
}

type snapshot struct {
	groups  string
	tokens  string
	clients []string
}

// every group name a token is ever asked for in this harness
var tokenGroups = []string{"g", "h", "", "g/sub", "gx", "g/", "G", "par", "par/kid"}

func tokensState() string {
	var b strings.Builder
	for _, g := range tokenGroups {
		ts, _, _ := token.List(g)
		var l []string
		for _, t := range ts {
			j, _ := json.Marshal(t)
			l = append(l, string(j))
		}
		sort.Strings(l)
		b.WriteString(strings.Join(l, ","))
		b.WriteString("|")
	}
	return b.String()
}

func snap(w *sig.World) snapshot {
	var s snapshot
	for _, g := range group.VerifGroups() {
		s.groups += g.VerifState() + "\n"
	}
	s.tokens = tokensState()
	for _, c := range w.Clients {
		s.clients = append(s.clients, c.V.Snapshot())
	}
	return s
}

// effect describes the privileged effect of one transition ("" = none).
func effect(w *sig.World, before, after snapshot, got [][]sig.Msg) string {
	var e []string
	for k := range got {
		for _, m := range got[k] {
			if k == 0 {
				if !refusal(m) {
					e = append(e, fmt.Sprintf("reply %v/%v to the sender", m["type"], m["kind"]))
				}
			} else if m["type"] != "__close" || true {
				e = append(e, fmt.Sprintf("%v/%v written to c%d", m["type"], m["kind"], k))
			}
		}
	}
	if before.groups != after.groups {
		e = append(e, "group state changed")
	}
	if before.tokens != after.tokens {
		e = append(e, "token store changed")
	}
	for k := range before.clients {
		if k == 0 {
			// the sender's own closed flag / queue are not effects; its
			// connections, data and request are
			b, a := strip(before.clients[0]), strip(after.clients[0])
			if b != a {
				e = append(e, "sender's connections/data changed")
			}
			continue
		}
		if before.clients[k] != after.clients[k] {
			e = append(e, fmt.Sprintf("state of c%d changed", k))
		}
	}
	return strings.Join(dedup(e), "; ")
}

// effectOnG is the part of an effect that concerns group g, its members c1
// and c2, or its tokens (used when the actor is a member of another group).
func effectOnG(before, after snapshot, got [][]sig.Msg) string {
	var e []string
	for k := 1; k < len(got); k++ {
		for _, m := range got[k] {
			e = append(e, fmt.Sprintf("%v/%v written to c%d (member of g)", m["type"], m["kind"], k))
		}
	}
	gstate := func(s string) string {
		for _, l := range strings.Split(s, "\n") {
			if strings.HasPrefix(l, "g ") {
				return l
			}
		}
		return ""
	}
	if gstate(before.groups) != gstate(after.groups) {
		e = append(e, "state of group g changed")
	}
	tg := func(s string) string { return strings.SplitN(s, "|", 2)[0] }
	if tg(before.tokens) != tg(after.tokens) {
		e = append(e, "tokens of group g changed")
	}
	for _, m := range got[0] {
		if j, _ := json.Marshal(m); strings.Contains(string(j), "tok-g") && !refusal(m) {
			e = append(e, "reply discloses a token of group g")
		}
	}
	for k := 1; k < len(before.clients); k++ {
		if before.clients[k] != after.clients[k] {
			e = append(e, fmt.Sprintf("state of c%d changed", k))
		}
	}
	return strings.Join(dedup(e), "; ")
}

func dedup(s []string) []string {
	var r []string
	seen := map[string]bool{}
	for _, x := range s {
		if !seen[x] {
			seen[x] = true
			r = append(r, x)
		}
	}
	return r
}

// strip keeps the parts of a client snapshot that a privileged action can
// change: data, request, connections.
func strip(s string) string {
	i := strings.Index(s, " d=")
	j := strings.Index(s, " closed=")
	k := strings.Index(s, " up=")
	l := strings.Index(s, " q=")
	if i < 0 || j < 0 || k < 0 || l < 0 {
		return s
	}
	return s[i:j] + s[k:l]
}

func has(perms map[string]bool, need []string) bool {
	for _, p := range need {
		if !perms[p] {
			return false
		}
	}
	return true
}

func runOne(w *sig.World, m sig.Msg) ([][]sig.Msg, string) {
	o := w.Send(0, m)
	if o.Panic != "" {
		return nil, o.Panic
	}
	got := make([][]sig.Msg, len(w.Clients))
	for k := range got {
		got[k] = append(got[k], o.New[k]...)
	}
	p := w.Settle(func(_ string, _ int, so sig.Obs) {
		for k := range so.New {
			got[k] = append(got[k], so.New[k]...)
		}
	})
	return got, p
}

func productCheck(res *core.Result, shard, shards int) core.Sub {
	t0 := time.Now()
	sub := core.Sub{Name: "message-x-state-x-role", Exhaustive: true}
	var outc core.Outcomes
	n := 0
	acts := actions()
	for _, unr := range []bool{false, true} {
		for _, role := range sig.Roles {
			for _, prefix := range sig.Prefixes {
				for _, a := range acts {
					n++
					if n%shards != shard {
						continue
					}
					if !core.TimeLeft() {
						sub.Exhaustive = false
						continue
					}
					w, pan := sig.Setup(role, prefix, unr)
					if pan != "" {
						res.Violate(core.Violation{Signature: "C11/panic-in-setup/" + sig.PanicSite(pan),
							What: fmt.Sprintf("role %s, state %s: %s", role, prefix, pan)})
						w.Close()
						continue
					}
					perms := sig.EffectivePerms(role, prefix, unr)
					member := sig.PrefixMember(prefix, role)
					before := snap(w)
					m := a.Msg()
					got, p := runOne(w, m)
					sub.Executions++
					sub.Transitions++
					desc := fmt.Sprintf("role=%s state=%s unrestricted-tokens=%v message=%s", role, prefix, unr, a.Name)
					if p != "" {
						res.Violate(core.Violation{Signature: "C11/panic/" + sig.PanicSite(p) + "/" + a.Name + "/" + stateClass(prefix),
							What:   desc + ": " + p,
							Replay: map[string]any{"sub": "product", "role": role, "prefix": prefix, "unrestricted": unr, "action": a.Name}})
						w.Close()
						continue
					}
					after := snap(w)
					eff := effect(w, before, after, got)
					if prefix == "joined-other-group" {
						// the actor is a legitimate member of h: only effects
						// that reach group g count
						eff = effectOnG(before, after, got)
					}
					allowed := member && has(perms, a.Need)
					outc.Add(fmt.Sprintf("%s/%v/%v/%v", a.Name, member, allowed, eff != ""))
					if eff != "" && !allowed {
						why := "lacks " + strings.Join(a.Need, "+")
						cls := "missing-permission"
						if !member {
							why = "is not a member (" + prefix + ")"
							cls = "non-member/" + stateClass(prefix)
						} else if strings.HasSuffix(prefix, "-notified") {
							cls = "revoked-permission"
						}
						res.Violate(core.Violation{Signature: "C11/unauthorised-effect/" + a.Name + "/" + cls,
							What:   fmt.Sprintf("%s: the sender %s but the action had an effect: %s", desc, why, eff),
							Replay: map[string]any{"sub": "product", "role": role, "prefix": prefix, "unrestricted": unr, "action": a.Name}})
					}
					if len(sub.Samples) < 3 && eff != "" {
						sub.Samples = append(sub.Samples, map[string]any{"case": desc, "effect": eff})
					}
					// the join message of a member's permissions must match the reference
					w.Close()
				}
			}
		}
	}
	sub.States = sub.Executions
	sub.Outcomes = outc.N()
	sub.Bound = fmt.Sprintf("full product: unrestricted(2) x roles(%d) x states(%d) x messages(%d)", len(sig.Roles), len(sig.Prefixes), len(acts))
	sub.WallS = time.Since(t0).Seconds()
	return sub
}

func stateClass(prefix string) string {
	if strings.HasPrefix(prefix, "refused") {
		return "join-refused"
	}
	return prefix
}

// permsCheck: the permissions installed by a join equal the reference, and
// a refused join leaves none behind.
func permsCheck(res *core.Result) core.Sub {
	sub := core.Sub{Name: "installed-permissions", Exhaustive: true}
	var outc core.Outcomes
	for _, unr := range []bool{false, true} {
		for _, role := range sig.Roles {
			for _, prefix := range sig.Prefixes {
				w, pan := sig.Setup(role, prefix, unr)
				sub.Executions++
				if pan != "" {
					w.Close()
					continue
				}
				want := sig.EffectivePerms(role, prefix, unr)
				got := map[string]bool{}
				for _, p := range w.Clients[0].V.Permissions() {
					got[p] = true
				}
				if prefix == "joined-other-group" {
					w.Close()
					continue
				}
				outc.Add(fmt.Sprint(role, prefix, len(got)))
				if fmt.Sprint(keys(want)) != fmt.Sprint(keys(got)) {
					cls := "member"
					if !sig.PrefixMember(prefix, role) {
						cls = "non-member/" + stateClass(prefix)
					}
					res.Violate(core.Violation{Signature: "C11/held-permissions/" + cls,
						What: fmt.Sprintf("role=%s state=%s unrestricted-tokens=%v: the connection holds permissions %v, the reference says %v",
							role, prefix, unr, keys(got), keys(want)),
						Replay: map[string]any{"sub": "perms", "role": role, "prefix": prefix, "unrestricted": unr}})
				}
				if s := group.VerifCheckRoleTable(false); s != "" {
					res.Violate(core.Violation{Signature: "C11/role-table-mutated/" + strings.SplitN(s, ":", 2)[0],
						What: fmt.Sprintf("role=%s state=%s: the package-level role table was modified: %s", role, prefix, s)})
				}
				w.Close()
			}
		}
	}
	sub.States, sub.Transitions, sub.Outcomes = sub.Executions, sub.Executions, outc.N()
	sub.Bound = "full product: unrestricted(2) x roles x states"
	return sub
}

func keys(m map[string]bool) []string {
	var k []string
	for x, v := range m {
		if v {
			k = append(k, x)
		}
	}
	sort.Strings(k)
	return k
}

// tokenCheck: maketoken delegates only what the creator holds, for its own
// group, with an expiry, without subgroups; edittoken/listtokens reach only
// tokens of the member's own group.
func tokenCheck(res *core.Result) core.Sub {
	sub := core.Sub{Name: "token-delegation-and-scope", Exhaustive: true}
	var outc core.Outcomes
	permSets := [][]string{{}, {"message"}, {"present"}, {"present", "message"}, {"op"}, {"record"}, {"token"}, {"admin"}, {"op", "present", "message", "caption", "token", "record"}}
	groups := []string{"g", "h", "", "g/sub", "gx", "g/", "G"}
	for _, g := range groups {
		if !slices.Contains(tokenGroups, g) {
			panic("tokenGroups does not cover " + g)
		}
	}
	defer func() { sig.FixtureAutoSubgroups = false }()
	for pass, unr := range []bool{false, true, false, true} {
		// second half: the creator's group has auto-subgroups
		sig.FixtureAutoSubgroups = pass >= 2
		for _, role := range []string{"speaker", "oper", "rawtoken", "rawop", "talker"} {
			holder := sig.RolePerms(role, unr)
			for _, ps := range permSets {
				for _, grp := range groups {
					for _, exp := range []bool{true, false} {
						for _, uname := range []string{"", "newuser", "alice"} {
							w, pan := sig.Setup(role, "joined", unr)
							if pan != "" {
								w.Close()
								continue
							}
							before := tokensState()
							m := ga("maketoken", tokenValue(ps, grp, exp, uname))()
							_, p := runOne(w, m)
							sub.Executions++
							desc := fmt.Sprintf("maketoken by %s (perms %v, member of g, auto-subgroups %v) for group %q perms %v expiry %v username %q", role, keys(holder), sig.FixtureAutoSubgroups, grp, ps, exp, uname)
							if p != "" {
								res.Violate(core.Violation{Signature: "C11/panic/" + sig.PanicSite(p) + "/maketoken", What: desc + ": " + p})
								w.Close()
								continue
							}
							created := tokensState() != before
							legal := holder["token"] && grp == "g" && exp && uname != "alice"
							for _, x := range ps {
								if !holder[x] {
									legal = false
								}
							}
							outc.Add(fmt.Sprint(created, legal, grp, exp))
							if created && !legal {
								cls := "beyond-creator"
								switch {
								case !holder["token"]:
									cls = "without-token-permission"
								case grp != "g":
									cls = "other-group"
								case !exp:
									cls = "no-expiry"
								case uname == "alice":
									cls = "configured-username"
								}
								res.Violate(core.Violation{Signature: "C11/maketoken/" + cls, What: desc + ": a token was created"})
							}
							w.Close()
						}
					}
				}
			}
		}
	}
	// edittoken / listtokens scope (S10)
	for _, role := range []string{"oper", "rawop", "rawtoken", "speaker"} {
		for _, tok := range []string{"tok-g", "tok-h", "nonexistent"} {
			w, pan := sig.Setup(role, "joined", false)
			if pan != "" {
				w.Close()
				continue
			}
			holder := sig.RolePerms(role, false)
			before := tokensState()
			got, p := runOne(w, ga("edittoken", map[string]any{"token": tok, "expires": vtime.Base.Add(5 * time.Hour).Format(time.RFC3339)})())
			sub.Executions++
			if p != "" {
				res.Violate(core.Violation{Signature: "C11/panic/" + sig.PanicSite(p) + "/edittoken", What: p})
				w.Close()
				continue
			}
			changed := tokensState() != before
			legal := holder["op"] && holder["token"] && tok == "tok-g"
			outc.Add(fmt.Sprint("edit", changed, legal))
			if changed && !legal {
				cls := "without-permission"
				if holder["op"] && holder["token"] {
					cls = "other-group"
				}
				res.Violate(core.Violation{Signature: "C11/edittoken/" + cls,
					What: fmt.Sprintf("edittoken of %s by %s (member of g, perms %v) changed the token store", tok, role, keys(holder))})
			}
			// replies must not disclose another group's token
			for _, m := range got[0] {
				if j, _ := json.Marshal(m); strings.Contains(string(j), "tok-h") && !refusal(m) {
					res.Violate(core.Violation{Signature: "C11/edittoken/discloses-other-group",
						What: fmt.Sprintf("edittoken of %s by %s: the reply contains the other group's token: %s", tok, role, j)})
				}
			}
			w.Close()
		}
		w, pan := sig.Setup(role, "joined", false)
		if pan == "" {
			got, p := runOne(w, ga("listtokens", nil)())
			sub.Executions++
			if p == "" {
				for _, m := range got[0] {
					if j, _ := json.Marshal(m); strings.Contains(string(j), "tok-h") {
						res.Violate(core.Violation{Signature: "C11/listtokens/other-group",
							What: fmt.Sprintf("listtokens by %s lists a token of another group: %s", role, j)})
					}
				}
			}
		}
		w.Close()
	}
	// a member of a subgroup: the parent's tokens (hierarchical or not) are
	// not its own group's
	for _, hier := range []bool{true, false} {
		for _, kind := range []string{"listtokens", "edittoken"} {
			w := sig.NewWorld(map[string]string{"par": `{"allow-subgroups":true,"users":{"oper":{"password":"p","permissions":"op"}}}`}, 1)
			exp := vtime.Now().Add(time.Hour)
			token.Update(&token.Stateful{Token: "tok-par", Group: "par", IncludeSubgroups: hier, Permissions: []string{"present"}, Expires: &exp}, "")
			token.Update(&token.Stateful{Token: "tok-kid", Group: "par/kid", Permissions: []string{"present"}, Expires: &exp}, "")
			w.Send(0, sig.Join("par/kid", "oper", "p"))
			w.Settle(nil)
			before := tokensState()
			msg := ga("listtokens", nil)()
			if kind == "edittoken" {
				msg = ga("edittoken", map[string]any{"token": "tok-par", "expires": vtime.Base.Add(5 * time.Hour).Format(time.RFC3339)})()
			}
			msg["source"], msg["username"] = "c0", "oper"
			o := w.Send(0, msg)
			w.Settle(nil)
			sub.Executions++
			outc.Add(fmt.Sprint("subgroup", kind, hier, len(o.New[0])))
			sawOwn := false
			for _, m := range o.New[0] {
				j, _ := json.Marshal(m)
				if strings.Contains(string(j), "tok-kid") {
					sawOwn = true
				}
				if strings.Contains(string(j), "tok-par") && !refusal(m) {
					res.Violate(core.Violation{Signature: "C11/" + kind + "/discloses-parent-group",
						What: fmt.Sprintf("%s by an op+token member of par/kid: the reply contains a token of the parent group par (include-subgroups=%v): %s", kind, hier, j)})
				}
			}
			if kind == "listtokens" && !sawOwn {
				res.Violate(core.Violation{Signature: "HARNESS-FAULT", What: "subgroup fixture: the member's own token was not listed (is the member joined with op+token?)"})
			}
			if kind == "edittoken" && tokensState() != before {
				res.Violate(core.Violation{Signature: "C11/edittoken/other-group",
					What: "edittoken by a member of par/kid changed a token of the parent group par"})
			}
			w.Close()
		}
	}
	sub.States, sub.Transitions, sub.Outcomes = sub.Executions, sub.Executions, outc.N()
	sub.Bound = "full product: unrestricted(2) x creator roles(5) x permission sets(9) x groups(4) x expiry(2) x usernames(3); edit/list x roles(4) x tokens(3); subgroup member x parent token (hierarchical or not) x list/edit"
	return sub
}

// revocationCheck: an op's unpresent/shutup/unop interleaved at every point
// with the target's privileged message: once the target has been written the
// `joined change` without the permission, its next privileged message is
// refused, and losing `present` closes its streams (abort written, up
// connection gone, subscribers told).
func revocationCheck(res *core.Result) core.Sub {
	sub := core.Sub{Name: "revocation-interleavings", Exhaustive: true}
	var outc core.Outcomes
	type rev struct {
		kind, perm string
		priv       action
	}
	acts := actions()
	find := func(n string) action {
		for _, a := range acts {
			if a.Name == n {
				return a
			}
		}
		panic(n)
	}
	revs := []rev{{"unpresent", "present", find("offer")}, {"shutup", "message", find("chat")}, {"unop", "op", find("lock")}, {"unop", "record", find("record")}}
	for _, r := range revs {
		// interleaving points: the privileged message is sent after k drains of the target
		for k := 0; k <= 3; k++ {
			for _, publishedFirst := range []bool{false, true} {
				w, pan := sig.Setup("oper", "joined", false)
				if pan != "" {
					w.Close()
					continue
				}
				if publishedFirst {
					runOne(w, find("offer").Msg())
				}
				w.Send(1, sig.Msg{"type": "useraction", "kind": r.kind, "source": "c1", "username": "alice", "dest": "c0"})
				notified := false
				check := func(o sig.Obs) {
					for _, m := range o.New[0] {
						if m["type"] == "joined" && m["kind"] == "change" {
							has := false
							ps, _ := m["permissions"].([]any)
							for _, p := range ps {
								if p == r.perm {
									has = true
								}
							}
							if !has {
								notified = true
							}
						}
					}
				}
				var streamsClosed bool
				for d := 0; d < k; d++ {
					o := w.Drain(0)
					if o.Panic != "" {
						res.Violate(core.Violation{Signature: "C11/panic/" + sig.PanicSite(o.Panic) + "/revocation", What: o.Panic})
					}
					check(o)
					for _, m := range o.New[0] {
						if m["type"] == "abort" {
							streamsClosed = true
						}
					}
				}
				if notified && r.perm == "present" && publishedFirst {
					if len(w.Clients[0].V.UpIDs()) > 0 || !streamsClosed {
						res.Violate(core.Violation{Signature: "C11/revocation/streams-not-closed",
							What: "the target was notified that it lost 'present' but its published stream was not closed"})
					}
				}
				before := snap(w)
				m := r.priv.Msg()
				if r.priv.Name == "offer" {
					m["id"] = "s2"
				}
				got, p := runOne(w, m)
				sub.Executions++
				if p != "" {
					res.Violate(core.Violation{Signature: "C11/panic/" + sig.PanicSite(p) + "/revocation", What: p})
					w.Close()
					continue
				}
				eff := ""
				// only the effect of the privileged message itself counts: settle
				// also completes the revocation, which changes c0's state
				for kk := 1; kk < len(got); kk++ {
					for _, x := range got[kk] {
						if x["type"] == "chat" || (x["type"] == "joined" && r.priv.Name == "lock") {
							eff = "delivered"
						}
					}
				}
				if r.priv.Name == "offer" {
					for _, x := range got[0] {
						if x["type"] == "answer" {
							eff = "answered"
						}
					}
				}
				if r.priv.Name == "lock" {
					if g := group.Get("g"); g != nil {
						if l, _ := g.Locked(); l {
							eff = "locked"
						}
					}
				}
				if r.priv.Name == "record" {
					for _, id := range sig.Members("g") {
						if !strings.HasPrefix(id, "c") {
							eff = "recorder joined"
						}
					}
				}
				_ = before
				outc.Add(fmt.Sprint(r.kind, k, notified, eff != ""))
				if notified && eff != "" {
					res.Violate(core.Violation{Signature: "C11/revocation/enforced-late/" + r.priv.Name,
						What: fmt.Sprintf("after the target was notified of losing %q (%s, %d batches handled) its %s still had an effect: %s", r.perm, r.kind, k, r.priv.Name, eff)})
				}
				w.Close()
			}
		}
	}
	sub.States, sub.Transitions, sub.Outcomes = sub.Executions, sub.Executions, outc.N()
	sub.Bound = "revocations(4) x interleaving points(4) x published-before(2)"
	return sub
}

// tokenAliasCheck: moderation of a client that joined with a stateful token
// must not change what the token grants to the next bearer.
func tokenAliasCheck(res *core.Result) core.Sub {
	sub := core.Sub{Name: "token-login-after-moderation", Exhaustive: true}
	var outc core.Outcomes
	kinds := []string{"op", "unop", "present", "unpresent", "shutup", "unshutup"}
	var seqs [][]string
	for _, a := range kinds {
		seqs = append(seqs, []string{a})
		for _, b := range kinds {
			seqs = append(seqs, []string{a, b})
		}
	}
	for _, perms := range [][]string{{"present", "message"}, {"message", "present"}, {"op", "present", "message"}, {"present"}} {
		for _, seq := range seqs {
			w := sig.NewWorld(sig.FixtureGroups(false, 0), 3)
			exp := vtime.Now().Add(time.Hour)
			token.Update(&token.Stateful{Token: "shared", Group: "g", Permissions: append([]string(nil), perms...), Expires: &exp}, "")
			run := func(i int, m sig.Msg) string {
				o := w.Send(i, m)
				if o.Panic != "" {
					return o.Panic
				}
				return w.Settle(nil)
			}
			pan := run(1, sig.Join("g", "alice", "pa"))
			if pan == "" {
				pan = run(0, sig.Msg{"type": "join", "kind": "join", "group": "g", "username": "guest1", "token": "shared"})
			}
			for _, k := range seq {
				if pan == "" {
					pan = run(1, sig.Msg{"type": "useraction", "kind": k, "source": "c1", "username": "alice", "dest": "c0"})
				}
			}
			if pan == "" {
				pan = run(2, sig.Msg{"type": "join", "kind": "join", "group": "g", "username": "guest2", "token": "shared"})
			}
			sub.Executions++
			if pan != "" {
				res.Violate(core.Violation{Signature: "C11/panic/" + sig.PanicSite(pan) + "/token-moderation", What: pan})
				w.Close()
				continue
			}
			got := w.Clients[2].V.Permissions()
			sort.Strings(got)
			want := append([]string(nil), perms...)
			sort.Strings(want)
			outc.Add(fmt.Sprint(got))
			if fmt.Sprint(got) != fmt.Sprint(want) {
				res.Violate(core.Violation{Signature: "C11/token-permissions-changed-by-moderation",
					What:   fmt.Sprintf("token grants %v; after its first bearer was moderated with %v, the next bearer of the same token holds %v", perms, seq, got),
					Replay: map[string]any{"sub": "token-alias", "perms": perms, "seq": seq}})
			}
			w.Close()
		}
	}
	sub.States, sub.Transitions, sub.Outcomes = sub.Executions, sub.Executions, outc.N()
	sub.Bound = "token permission lists(4) x moderation sequences of length <=2 over 6 kinds(42)"
	sub.Samples = []any{"token [present message]: guest1 joins, alice: unpresent guest1, guest2 joins with the same token"}
	return sub
}

// entryAliasCheck: clients that logged in through the same user entry (named
// role, raw permission array, wildcard user) hold independent permission
// sets: moderating one never changes another's, nor what a later login gets.
func entryAliasCheck(res *core.Result) core.Sub {
	sub := core.Sub{Name: "same-entry-logins-after-moderation", Exhaustive: true}
	var outc core.Outcomes
	const desc = `{"users":{"alice":{"password":"pa","permissions":"op"},"raw":{"password":"p","permissions":["present","message"]},"role":{"password":"p","permissions":"present"}},"wildcard-user":{"password":"w","permissions":["message","present"]}}`
	apply := func(perms map[string]bool, kind string) {
		switch kind {
		case "op":
			perms["op"] = true
		case "unop":
			delete(perms, "op")
			delete(perms, "record")
		case "present":
			perms["present"] = true
		case "unpresent":
			delete(perms, "present")
		case "shutup":
			delete(perms, "message")
		case "unshutup":
			perms["message"] = true
		}
	}
	kinds := []string{"op", "unop", "present", "unpresent", "shutup", "unshutup"}
	type act struct {
		target int
		kind   string
	}
	var seqs [][]act
	for _, t1 := range []int{0, 2} {
		for _, k1 := range kinds {
			seqs = append(seqs, []act{{t1, k1}})
			for _, t2 := range []int{0, 2} {
				for _, k2 := range kinds {
					seqs = append(seqs, []act{{t1, k1}, {t2, k2}})
				}
			}
		}
	}
	for _, entry := range []struct{ user, pw string }{{"raw", "p"}, {"role", "p"}, {"anybody", "w"}} {
		for _, seq := range seqs {
			w := sig.NewWorld(map[string]string{"g": desc}, 4)
			run := func(i int, m sig.Msg) string {
				o := w.Send(i, m)
				if o.Panic != "" {
					return o.Panic
				}
				return w.Settle(nil)
			}
			pan := run(1, sig.Join("g", "alice", "pa"))
			for _, i := range []int{0, 2} {
				if pan == "" {
					pan = run(i, sig.Join("g", entry.user, entry.pw))
				}
			}
			ref := map[int]map[string]bool{0: {"present": true, "message": true}, 2: {"present": true, "message": true}}
			for _, a := range seq {
				if pan == "" {
					pan = run(1, sig.Msg{"type": "useraction", "kind": a.kind, "source": "c1", "username": "alice", "dest": fmt.Sprintf("c%d", a.target)})
					apply(ref[a.target], a.kind)
				}
			}
			if pan == "" {
				pan = run(3, sig.Join("g", entry.user, entry.pw))
			}
			sub.Executions++
			if pan != "" {
				res.Violate(core.Violation{Signature: "C11/panic/" + sig.PanicSite(pan) + "/entry-moderation", What: pan})
				w.Close()
				continue
			}
			ref[3] = map[string]bool{"present": true, "message": true}
			for _, i := range []int{0, 2, 3} {
				got := map[string]bool{}
				for _, p := range w.Clients[i].V.Permissions() {
					got[p] = true
				}
				outc.Add(fmt.Sprint(keys(got)))
				if fmt.Sprint(keys(got)) != fmt.Sprint(keys(ref[i])) {
					cls := "moderated-client"
					if i == 3 {
						cls = "later-login"
					} else {
						touched := false
						for _, a := range seq {
							if a.target == i {
								touched = true
							}
						}
						if !touched {
							cls = "bystander"
						}
					}
					res.Violate(core.Violation{Signature: "C11/same-entry-permissions-aliased/" + cls,
						What:   fmt.Sprintf("entry %q: after moderation %v, c%d holds %v; the reference (its own history only) says %v", entry.user, seq, i, keys(got), keys(ref[i])),
						Replay: map[string]any{"sub": "entry-alias", "entry": entry.user, "seq": fmt.Sprint(seq)}})
				}
			}
			w.Close()
		}
	}
	sub.States, sub.Transitions, sub.Outcomes = sub.Executions, sub.Executions, outc.N()
	sub.Bound = fmt.Sprintf("entries(3: raw array, role name, wildcard user with raw array) x moderation sequences of length <=2 over 2 targets x 6 kinds (%d)", len(seqs))
	sub.Samples = []any{"entry raw [present message]: c0 and c2 join through it; alice: shutup c0, unpresent c2; c3 joins through it"}
	return sub
}

func main() {
	t0 := time.Now()
	o := core.ParseFlags(80, 900)
	res := &core.Result{Property: "C11", Tier: o.Tier,
		Technique: "full product enumeration (role x membership state x message kind) through the real signalling handlers with a side-effect oracle; enumeration of revocation interleaving points"}
	defer sig.Cleanup()
	if o.Replay != "" {
		replay(o.Replay)
		return
	}
	if o.Shard < 0 {
		core.RunShards(res, core.NCPU(), nil, func(shard int, out string) *core.Violation {
			return &core.Violation{Signature: "C11/process-died", What: "a shard died (the real code killed the process): " + tailStr(out, 1500)}
		})
		res.Assume("a side effect is anything other than a refusal written to the sender: output to other clients, group state, token store, connections, data, request; required permissions per message kind are taken from the property text")
		res.Assume("WHIP ingest credentials are checked by the WHIP sub-check of C12's HTTP product (rejections) only; accepted WHIP sessions need real ICE gathering and are out of scope here")
		core.Finish(res, t0)
	}
	if core.Want("product") {
		res.AddSub(productCheck(res, o.Shard, o.Shards))
	}
	if o.Shard == 0 && core.Want("perms") {
		res.AddSub(permsCheck(res))
	}
	if o.Shard == 1%o.Shards && core.Want("token") {
		res.AddSub(tokenCheck(res))
	}
	if o.Shard == 2%o.Shards && core.Want("revocation") {
		res.AddSub(revocationCheck(res))
	}
	if o.Shard == 4%o.Shards && core.Want("moderation-vs-group-switch") {
		res.AddSub(seqx.Explore(switchConfig(), res))
	}
	if o.Shard == 6%o.Shards && core.Want("whip-session-token") {
		res.AddSub(whipSessionCheck(res))
	}
	if o.Shard == 5%o.Shards && core.Want("moderation-vs-group-switch") {
		res.AddSub(seqx.Explore(dupConfig(), res))
	}
	if o.Shard == 3%o.Shards && core.Want("token-login") {
		res.AddSub(tokenAliasCheck(res))
	}
	if o.Shard == 4%o.Shards && core.Want("same-entry") {
		res.AddSub(entryAliasCheck(res))
	}
	sig.Cleanup()
	core.Finish(res, t0)
}

func tailStr(s string, n int) string {
	if len(s) > n {
		return s[len(s)-n:]
	}
	return s
}

func replay(path string) {
	data, err := os.ReadFile(path)
	if err != nil {
		fmt.Println(err)
		os.Exit(2)
	}
	var a struct {
		Replay struct {
			Sub          string `json:"sub"`
			Role, Prefix string
			Unrestricted bool
			Action       string
			Config       string `json:"config"`
			Ops          []sop  `json:"ops"`
		} `json:"replay"`
	}
	if err := json.Unmarshal(data, &a); err != nil {
		fmt.Println(err)
		os.Exit(2)
	}
	r := a.Replay
	if r.Sub == "whip-session-token" {
		rs := &core.Result{Property: "C11"}
		whipSessionCheck(rs)
		sig.Cleanup()
		if len(rs.Violations) > 0 {
			fmt.Printf("VIOLATION property=C11 replay=%s\n  signature: %s\n  %s\n", path, rs.Violations[0].Signature, rs.Violations[0].What)
			os.Exit(1)
		}
		fmt.Println("replay: no violation")
		return
	}
	if r.Config == switchConfig().Name || r.Config == dupConfig().Name {
		defer sig.Cleanup()
		w := swFresh().(*sworld)
		if r.Config == dupConfig().Name {
			w.Close()
			w = dupConfig().Fresh().(*sworld)
		}
		for _, o := range r.Ops {
			v := w.Apply(o)
			fmt.Printf("  %-12s -> in=%q held=%v justified=%v pending=%v signalled=%v\n", o.Kind, w.in, w.w.Clients[0].V.Permissions(), keys(w.want), w.pending, w.w.Clients[0].V.Signalled())
			if v != nil {
				fmt.Printf("VIOLATION property=C11 replay=%s\n  signature: %s\n  %s\n", path, v.Signature, v.What)
				sig.Cleanup()
				os.Exit(1)
			}
		}
		fmt.Println("replay: no violation")
		return
	}
	w, pan := sig.Setup(r.Role, r.Prefix, r.Unrestricted)
	defer sig.Cleanup()
	if pan != "" {
		fmt.Printf("VIOLATION property=C11 replay=%s\n  panic in set-up: %s\n", path, pan)
		os.Exit(1)
	}
	if r.Sub == "perms" {
		fmt.Println("held:", w.Clients[0].V.Permissions(), "reference:", keys(sig.EffectivePerms(r.Role, r.Prefix, r.Unrestricted)))
		if fmt.Sprint(keys(sig.EffectivePerms(r.Role, r.Prefix, r.Unrestricted))) != fmt.Sprint(w.Clients[0].V.Permissions()) {
			fmt.Printf("VIOLATION property=C11 replay=%s\n", path)
			os.Exit(1)
		}
		return
	}
	for _, act := range actions() {
		if act.Name == r.Action {
			before := snap(w)
			got, p := runOne(w, act.Msg())
			if p != "" {
				fmt.Printf("VIOLATION property=C11 replay=%s\n  %s\n", path, p)
				os.Exit(1)
			}
			eff := effect(w, before, snap(w), got)
			allowed := sig.PrefixMember(r.Prefix, r.Role) && has(sig.EffectivePerms(r.Role, r.Prefix, r.Unrestricted), act.Need)
			fmt.Printf("effect=%q allowed=%v\n", eff, allowed)
			if eff != "" && !allowed {
				fmt.Printf("VIOLATION property=C11 replay=%s\n", path)
				os.Exit(1)
			}
		}
	}
}
